#!/usr/bin/env bash
# tools/run_all.sh [tier] [seed...] : run every check, print one line each; validate evidence.
tier="${1:-quick}"; shift || true
seeds="${*:-1}"
here="$(cd "$(dirname "${BASH_SOURCE[0]}")/.." && pwd)"
for seed in $seeds; do
for i in 01 02 03 04 05 06 07 08 09 10 11 12 13 14 15 16 17 18 19 20; do
  t0=$(date +%s.%N)
  out="$(VERIF_SEED=$seed "$here/check" C$i $tier 2>&1)"; rc=$?
  t1=$(date +%s.%N)
  printf "seed=%s C%s rc=%s %.1fs %s\n" "$seed" "$i" "$rc" "$(echo "$t1 - $t0" | bc)" "$(echo "$out" | grep -E 'VIOLATION|INCONCLUSIVE' | head -2 | tr '\n' ' ' | cut -c1-200)"
done
done
python3-vt - <<PY
import json,jsonschema,glob
sch=json.load(open('/root/.vp/EVIDENCE.schema.json'))
bad=0
for f in sorted(glob.glob('$here/evidence/*.json')):
    try: jsonschema.validate(json.load(open(f)),sch)
    except Exception as e: bad+=1; print('INVALID',f,str(e)[:200])
print('evidence files valid' if not bad else f'{bad} invalid')
PY
