#!/usr/bin/env bash
# Kept for the record (DESIGN.md 8.6-8.15): the script that produced seeded/RESULTS_*. Not used by any
# registered check. It expects an isolated copy of /verif (git archive) at /scratch/mutenv/verif next to
# a scratch worktree of /repo at /scratch/mutenv/repo (mutmatrix/regress), or applies the patch to /repo
# itself and reverts it (seedmatrix).
# usage: mutmatrix.sh <outfile> <diff>...   (runs in the isolated copy /scratch/mutenv)
out="$1"; shift
R=/scratch/mutenv/repo; V=/scratch/mutenv/verif
for d in "$@"; do
  name=$(basename "$d" .diff)
  git -C $R checkout -q -- . ; git -C $R clean -fdq src
  if ! git -C $R apply "$d" 2>/dev/null; then echo "$name APPLY_FAILED" >> "$out"; continue; fi
  base=$(cd $R && cargo test --offline 2>&1 | grep -E "^test result" | awk '{p+=$4; f+=$6} END {print p"/"f}')
  line="$name baseline=$base"
  for i in 01 02 03 04 05 06 07 08 09 10 11 12 13 14 15 16 17 18 19 20; do
    o="$(cd $V && VERIF_DIR=$V ./check C$i quick 2>&1)"; rc=$?
    if [ $rc -ne 0 ]; then line="$line C$i=$rc"; fi
    if [ $rc -eq 2 ]; then echo "--- $name C$i inconclusive: $(echo "$o" | grep -m1 INCONCLUSIVE | cut -c1-300)" >> "$out.detail"; fi
    if [ $rc -eq 1 ]; then echo "--- $name C$i: $(echo "$o" | grep -m1 -A3 VIOLATION | tr '\n' ' ' | cut -c1-400)" >> "$out.detail"; fi
  done
  echo "$line" >> "$out"
  git -C $R checkout -q -- .
done
echo DONE >> "$out"
