#!/usr/bin/env python3
"""Regenerates /verif/MANIFEST.json from the table below (keeps it schema-valid)."""
import json, os, sys
here = os.path.dirname(os.path.dirname(os.path.abspath(__file__)))
props = [json.loads(l) for l in open(os.path.join(here, 'properties.jsonl'))]
ids = [p['id'] for p in props]

# id -> (level category, technique, level text, level note, design ref)
TB_MODEL = 'Trusts: the clean-room reference model refnoise (re-validated against the 472 Curve25519 cacophony vectors on every run; exit 2 if that fails), ring + own RFC 7693/2104/HKDF code as primitive oracles, proptest, rustc.'
TB_API = 'Trusts: the harness\'s own transcription of the specification\'s pattern table (agrees with cacophony vectors for all 38 patterns), proptest, rustc. Drives only the public API (plus the guarded sending-nonce hook where stated).'
CLAIMS = {
 'C01': ('exploration', 'differential testing against a clean-room Noise rev34 reference model validated on the cacophony vectors (proptest + name-space enumeration)',
         'Every generated session (all 556 handshake strings, all 24 primitive suites, custom names via NoiseParams::new, permuted modifiers, max-length payloads, transport scripts, both roles, stateful and stateless, mixed snow/model sessions) is compared byte for byte - messages, handshake hash after every message, payload-encrypted flag - with an independent model of the specification; snow is also run directly against the 472 third-party cacophony vectors. Held on everything explored; no proof of absence.', TB_MODEL, 'DESIGN.md 3 C01'),
 'C02': ('exploration', 'round-trip property over generated honest sessions with real OS randomness (proptest + enumeration of all names)',
         'Round trip of honest sessions for every handshake string and suite with keys from generate_keypair and real random ephemerals (recorded), payload lengths 0..max, up to 30 transport messages in arbitrary direction interleaving, stateful/stateless per side with reordered delivery; thorough adds every (name, suite) pair and the hfs/Kyber build. The oracle does not depend on the random values.', TB_API, 'DESIGN.md 3 C02'),
 'C03': ('fault_enumeration', 'fault enumeration over message alterations with field maps from the reference model (+ proptest random edits; + libFuzzer target hs_alter in thorough)',
         'Enumerates alterations of every handshake message (bit flips, truncations, extensions, byte edits, substitution by earlier / parallel-session messages); exhaustive for all single-bit flips and all truncation lengths of every message of the 38 base patterns. Checks that both parties never finish without an error and that alterations inside encrypted fields are rejected by the receiving read.', TB_API, 'DESIGN.md 3 C03'),
 'C04': ('fault_enumeration', 'fault enumeration on transport messages with accept-iff-genuine oracle over both cipher backends (+ proptest; + libFuzzer target tr_forge in thorough)',
         'Forgeries of transport messages (all bit flips of sample messages, all truncations, extensions, reflection, cross-session, early/replayed messages, stateless nonce substitution over all 64 bit positions and boundary pairs) must be rejected and the genuine message must still be accepted afterwards, for all ciphers, hashes, both backends, both modes, interactive and one-way.', TB_API, 'DESIGN.md 3 C04'),
 'C05': ('exploration', 'model-based testing of delivery schedules: bounded-exhaustive enumeration + proptest schedules with shrinking',
         'All delivery schedules up to length 5 (6 thorough) over {deliver any of K messages, garbage, undersized buffer, oversize} plus random longer schedules with set_receiving_nonce in both directions are checked against a one-integer-per-direction model after every step.', TB_API, 'DESIGN.md 3 C05'),
 'C06': ('exploration', 'history invariant over an instrumented CryptoResolver (recording cipher, DH and RNG); fault schedules enumerated + proptest',
         'Both endpoints run behind a recording cipher; histories contain failing attempts (every C07 cause) retried with different payloads, conversions, failing transport writes, auto and manual rekeys, stateless writes. The merged log must never contain two encryptions of different data under one (key, nonce); every ephemeral on the wire must be the public key of bytes drawn from the RNG during that write.', TB_API, 'DESIGN.md 3 C06'),
 'C07': ('fault_enumeration', 'differential fault injection: faulty run vs fault-free run under a scripted RNG, enumerated from reference field maps (+ proptest scattered faults)',
         'Every failure cause (buffer at each field boundary, oversize payload, missing PSK then set_psk, out-of-turn, flipped bit in each field, truncations, extension, foreign message, small payload buffer, oversize message; transport faults) at every message of the sampled names (all names in thorough) with 1-3 repetitions and scattered combinations: snapshot unchanged, retry succeeds, all later bytes identical to the fault-free run.', TB_API, 'DESIGN.md 3 C07'),
 'C08': ('exploration', 'negative differential testing: control session vs session with injected context disagreement (enumeration over all names + proptest combinations)',
         'For every handshake string one disagreement at a time (name string incl. bytes beyond HASHLEN, modifier order, hash, cipher, sibling pattern, prologue bit/length/empty, PSK bit, wrong pre-shared static key) and random combinations: the handshake never completes on both sides without error, while the control without the disagreement completes.', TB_API, 'DESIGN.md 3 C08'),
 'C09': ('exploration', 'model-based testing with a recording cipher and the guarded sending-nonce hook (boundary scenarios + proptest sequences)',
         'Counter model checked after every step of generated op sequences (writes, deliveries, failing ops, nonce setters at 2^64-4..2^64-1 and 2^32 boundaries, rekeys) in stateful and stateless mode for all ciphers/backends; Exhausted error at the reserved value; the cipher log never shows nonce 2^64-1 outside rekey and always shows the model counter.', TB_API + ' Uses hook verif_set_sending_nonce.', 'DESIGN.md 3 C09'),
 'C10': ('exploration', 'robustness fuzzing: exhaustive boundary sweep from reference field maps + proptest API op sequences with shrinking (+ libFuzzer target api_ops in thorough)',
         'No public call may unwind: sweep of every buffer/payload/message length around every field boundary of every message (sampled names quick, all 556 x 2 DH thorough), transport sweep, arbitrary op sequences over the whole API with arbitrary names, key lengths 0..200, prologues to 66000, any psk location, conversions at any time; name parser on arbitrary strings. One recorded known finding (invalid P-256 private scalar) is excluded by construction and re-confirmed by a probe on each run.', TB_API + ' Non-termination/abort only observable as time-out (exit 2).', 'DESIGN.md 3 C10'),
 'C11': ('exploration', 'bounded-exhaustive model-based testing of call sequences (every node of the call tree to the depth bound) + proptest',
         'Every sequence of handshake calls (valid/invalid writes, genuine/stale/garbage reads) to depth #messages+1 (+2 thorough) for all 38 patterns and both roles, with both conversions at every node and all length-2 transport continuations, against a (position, role) model incl. the documented error kinds and the turn/finished indicators.', TB_API, 'DESIGN.md 3 C11'),
 'C12': ('exploration', 'exhaustive enumeration of the builder configuration space against requirements derived from an independent pattern table',
         'The finite configuration space is enumerated completely: key subsets x roles x patterns x DH, psk modifier indices and subsets, fallback, resolvers lacking each primitive, DH 448, generate_keypair, and every subset of PSKs supplied at build time; build result and error kind, later completion, and missing-PSK reporting are checked.', TB_API, 'DESIGN.md 3 C12'),
 'C13': ('exploration', 'differential testing of the parser against a reference recogniser: exhaustive product + exhaustive single-edit mutation + proptest strings',
         'Complete product of valid components (166k names quick, 1.5M thorough), every single-character edit of a sample of valid names (about 1M strings), random grammar-aware and arbitrary Unicode strings; parse result, parsed components, verbatim name and error class compared with an independent recogniser; thorough adds the hfs build.', 'Trusts the reference recogniser written from the property statement; psk indices with leading zeros are not judged.', 'DESIGN.md 3 C13'),
 'C14': ('exploration', 'boundary-value enumeration against a reference length model (field maps of the clean-room Noise model)',
         'For every handshake string and message: payload lengths around 0 and the maximum, output buffers around the predicted length, 0, 65535, 65536+; reads of genuine messages with payload buffers around the payload length, of every too-short length (thorough) and of oversize messages; transport likewise. Checks exact returned lengths, Input errors where the message cannot fit, success where it amply fits.', TB_MODEL, 'DESIGN.md 3 C14'),
 'C15': ('exploration', 'model-based differential testing against the reference AEAD/REKEY on unwrapped backends (bounded-exhaustive + proptest)',
         'All op sequences to depth 4 (5 thorough) over writes, deliveries, auto rekeys of either direction on either side and manual rekeys, for all ciphers x backends x modes, plus random depth-40 sequences: every message equals ENCRYPT_ref under the key the REKEY definition yields, deliveries are accepted iff keys are in sync, nonces untouched.', TB_MODEL, 'DESIGN.md 3 C15'),
 'C16': ('exploration', 'metamorphic/differential property testing (stateless vs stateful sender, repeat/reorder invariance) + multi-threaded stress with schedule-independent oracle',
         'Generated item sets (direction, 64-bit nonce incl. boundaries, payload) and call scripts with repetition and reordering: writes are deterministic and equal the stateful sender placed at that nonce, reads return the payload every time; 8 threads share the sessions and every result must equal the precomputed one.', TB_API + ' Thread interleavings are sampled, not enumerated.', 'DESIGN.md 3 C16'),
 'C17': ('exploration', 'differential observation against a reference key schedule (pattern table + independent DH), exhaustive over names x DH x roles x observation points',
         'get_remote_static is observed after build, after every message and after both conversions for every handshake string x {25519, P256} x both roles, incl. variants with an unneeded different key supplied and with a rejected copy of the carrying message delivered first; expected value derived from the pattern table and the reference DH.', TB_API, 'DESIGN.md 3 C17'),
 'C18': ('exploration', 'differential testing of primitives against independent implementations and RFC known answers (boundary enumeration + proptest)',
         'Hash/HMAC/HKDF, AEAD encrypt/decrypt/reject/rekey and DH objects of both built-in backends are compared with independent oracles (ring for the default backend, RustCrypto direct for the ring backend, own BLAKE2/HMAC/HKDF, RFC vectors) over length, nonce-bit and edge-value classes; the two oracle families are cross-checked each run.', 'Trusts ring, RustCrypto (as oracle for the ring backend only), the RFC 7693 transcription validated by Python hashlib KATs.', 'DESIGN.md 3 C18'),
 'C19': ('exploration', 'invariant check on the caller-visible buffer after injected authentication failures (enumeration + proptest)',
         'For every suite x backend x read path (handshake payload, stateful, stateless) x alteration that keeps the key correct (tag bit, body byte, dropped byte, AD-only) x output buffer size: after the rejected read no 8-byte window of the genuine plaintext is present in the caller\'s buffer; the genuine message is then accepted.', TB_API, 'DESIGN.md 3 C19'),
 'C20': ('exploration', 'differential testing across crypto backends (transcript equality over all 9 backend assignments) + exhaustive fallback-resolution table with marker resolvers',
         'For every handshake string and every suite both backends support, transcripts (handshake, hashes, transport incl. rekey, stateless) of all 9 backend assignments are byte-identical and interoperate; the complete (kind, choice, availability) table of FallbackResolver is enumerated with tagged resolvers.', TB_API, 'DESIGN.md 3 C20'),
}

# what the strengthening passes (DESIGN.md 8.6-8.13) added on top of the original claim texts
ADDENDA = {
 'C01': 'Also: PSKs supplied late / twice / replaced / in stray slots, all-zero and all-ones PSKs, transport counters started just below 2^8..2^64, shaped keys (public keys / DH outputs with leading or trailing zero bytes), and the initiator\'s first message for ARBITRARY 32-byte pre-shared responder keys (twist points, non-canonical encodings). Seventh pass: the peer\'s true static key pinned although transmitted; write buffers of several capacities. Eighth pass: REKEY before some transport messages; dangerously_get_raw_split() compared with the reference Split().',
 'C02': 'Also: sessions of 66 000 transport messages, DH outputs with leading/trailing zero bytes, PSKs supplied by set_psk on one side only or on both, all-zero / all-ones PSKs. Seventh pass: the peer\'s true static key pinned although transmitted. Eighth pass: the hfs/Kyber sessions also run in the quick tier (second process, hfs build).',
 'C03': 'Also: ring backends, exact-size read buffers, block swaps, related ephemerals, sessions with the same static keys, the same alterations on messages with large payloads (1000 .. 4 KiB .. 32 KiB .. the maximum); thorough adds the libFuzzer target hs_alter (XOR masks / cuts / extensions over the genuine message under the same oracle). Seventh pass: read buffers of exactly the honest payload size. Eighth pass: empty read buffers.',
 'C04': 'Also: forged deliveries into too-small and empty buffers, repeated forgeries, sessions with the same static keys, counters near 2^8..2^64, a payload length ladder up to 65519, all-zero messages; thorough adds the libFuzzer target tr_forge. Seventh pass: the receiver repositioned (set_receiving_nonce) to another message number and then given the genuine message. Eighth pass: session histories with a one-sided manual rekey before the forgery.',
 'C05': 'Also: counter bases near every boundary, explicit receiving-nonce changes back and ahead inside the exhaustive alphabet, 600-message in-order runs with bursts of up to 260 consecutive rejected deliveries. Seventh pass: receivers placed k*2^32 ahead of a sent message; read buffer capacities. Eighth pass: set_receiving_nonce on the writer during long runs.',
 'C06': 'Also: writes at the reserved nonce, set_receiving_nonce and genuine deliveries inside the histories (incl. the send-only side of one-way patterns). Seventh pass: the sending counter moved forward to 2^64-1-k inside the histories.',
 'C07': 'Also: failing set_psk, calls after the last message, fault pairs and scattered faults, stateless endings, an unneeded remote key supplied up front, an invalid (but correctly encrypted) static key from a key-holding peer, and a random source that yields different bytes while an injected failing call runs. Seventh pass: calls refused at 2^64-1 (counter moved there and back) as a failure cause.',
 'C08': 'Also: prologues beyond 64 KiB differing in the last byte, trailing zeros, and a pre-shared static key with one bit changed (X25519: bit 255, another encoding of the same point). Eighth pass: the negated P-256 key (same ECDH outputs) as a disagreement.',
 'C09': 'Also: manual rekeys, counters started 2 below every power of two, 300-message runs, 70/300/1000 consecutive failing reads and writes, deliveries longer than 65535 bytes or shorter than a tag. Seventh pass: payload lengths 0..5000.',
 'C10': 'Also: dense length sweeps with exact-size buffers on both backends up to 65535, every parsed name built with all keys and ten PSKs supplied, names with up to 5000 modifiers and every psk index 0..300. Seventh pass: set_psk locations and nonce arguments at 22 boundary values up to usize::MAX. Eighth pass: Debug formatting of every session object and the raw Split() query after every operation.',
 'C11': 'Also: transport continuations with manual and automatic rekeys; ephemerals drawn from a random source that yields other bytes during calls the model expects to fail. Eighth pass: a psk modifier at every position of every pattern (quick tier too); suite and key material rotate with the case.',
 'C12': 'Also: ordered pairs / triples of psk modifiers, indices 10..255, all-zero / all-ones PSK values. Seventh pass: the key-subset table on every single-psk variant with the PSK supplied or left for set_psk.',
 'C13': 'Also: every ordered pair over psk0..psk257, duplicate-free modifier lists of every length up to 257 (names up to 1700 bytes), token-level edits (duplicate / delete / swap / replace / insert over a 34-word vocabulary), double edits. Seventh pass: every Unicode code point class up to U+FFFF inside psk indices, pattern and primitive names. Eighth pass: the name must be preserved verbatim also for accepted forms whose acceptance is not judged; hfs product in the quick tier.',
 'C14': 'Also: dense payload/length sweeps to 65535 on both backends with exact buffers, and valid ciphertexts LONGER than 65535 bytes sealed with the reference cipher under the session keys (must be refused; the 65535-byte control is accepted). Seventh pass: PSKs in unused slots (also on names without psk modifier). Eighth pass: names with the 448 DH choice over a custom resolver with 56-byte keys.',
 'C15': 'Also: one-way configurations, counter jumps, a 10-key manual pool (shared prefixes, the session\'s initial keys, all-zero / constant-fill / s||s keys). Seventh pass: rekeys issued while counters stand at 13 values incl. 2^64-1 and back. Eighth pass: a pass-through cipher wrapper that relies on the Cipher trait\'s provided rekey.',
 'C16': 'Also: payloads up to 65519 under concurrency, thousands of rejected reads between accepted ones, manual rekey variants (both keys in one call, one direction per call, automatic then manual) applied alike to stateless objects and stateful twins. Seventh pass: read buffer capacities. Eighth pass: application-supplied ciphers (pass-through, and one overriding Cipher::rekey).',
 'C17': 'Also: pre-shared keys supplied without their trailing zero bytes, reads that fail for a missing PSK after the static-key field was processed (with and without an extra supplied key). Seventh pass: writes that fail for lack of room. Eighth pass: dangerously_get_raw_split() as a query before conversion.',
 'C18': 'Also: hasher objects reused with pending input, associated-data and plaintext ladders up to 65535, low-order X25519 inputs (either standard behaviour accepted). Eighth pass: Builder::generate_keypair for both DH functions and backends.',
 'C19': 'Also: the handshake static-key field as the secret, messages cut inside the payload field, repeated deliveries, rekeys first, output buffers 0..5 bytes short / larger than 65535, plaintext lengths at multiples of 4 KiB, large message numbers, position-aligned fragments of 6 bytes. Eighth pass: handshake payloads of deferred patterns (payload not the first ciphertext under its key).',
 'C20': 'Also: read buffers with slack, a transport length ladder, manual keys / automatic rekey / the same manual keys again, and nested fallback resolvers over all 16^3 availability vectors. Eighth pass: all 24 suites (ring provides only part of them) through the nine backend assignments.',
}

NOT_YET = 'check not built yet in this phase (planned, see DESIGN.md 3.22)'

checks = []
for i in ids:
    if i in CLAIMS:
        cat, tech, text, note, ref = CLAIMS[i]
        checks.append({
            'property_id': i,
            'quick_cmd': f'./check {i} quick',
            'thorough_cmd': f'./check {i} thorough',
            'evidence_file': f'/verif/evidence/{i}.json',
            'replay_cmd_template': f'./check {i} --replay {{path}}',
            'engine': 'snowverif',
            'level_claimed': {'category': cat, 'text': text + ' ' + ADDENDA.get(i, '') + ' The complete, current list of generated classes is the `rule` field of the evidence file.', 'design_ref': ref},
            'level_note': note,
            'technique': tech,
        })
man = {
 'version': 1,
 'setup_cmd': 'cd harness && CARGO_NET_OFFLINE=true cargo build --release && CARGO_NET_OFFLINE=true cargo build --release --features hfs --target-dir target-hfs',
 'hooks': {
   'guard': 'cargo feature verif-hooks (off by default)',
   'enable': 'the harness depends on snow by path ../../repo with features use-p256 use-xchacha20poly1305 ring-resolver verif-hooks (the hook) and risky-raw-split (an upstream feature that exposes dangerously_get_raw_split, used as one more observation point)',
   'baseline_off_cmd': 'cd /repo && cargo test --workspace --no-fail-fast --offline',
   'source_commits': ['090cda1'],
   'add_only': True,
 },
 'engines': [
   {'name': 'snowverif', 'path': 'harness', 'serves_properties': [c['property_id'] for c in checks],
    'kind_free_text': 'Rust binary: proptest-as-library random search with shrinking, exhaustive enumerators, reference-model / differential / metamorphic / history-invariant oracles, 16 deterministic shards seeded from VERIF_SEED'},
 ],
 'checks': checks,
 'not_applicable': [{'property_id': i, 'reason': NOT_YET} for i in ids if i not in CLAIMS],
 'notes': 'Exit codes: 0 held, 1 VIOLATION (replay file under /verif/out/replays), 2 inconclusive (build failure, oracle self-test failure, generator hole). Known findings: /verif/known_findings.json.',
}
json.dump(man, open(os.path.join(here, 'MANIFEST.json'), 'w'), indent=1)
print('checks:', len(checks), 'not_applicable:', len(man['not_applicable']))
