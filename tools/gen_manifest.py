#!/usr/bin/env python3
"""Regenerates /verif/MANIFEST.json from the table below (keeps it schema-valid)."""
import json, os, sys
here = os.path.dirname(os.path.dirname(os.path.abspath(__file__)))
props = [json.loads(l) for l in open(os.path.join(here, 'properties.jsonl'))]
ids = [p['id'] for p in props]

# id -> (level category, technique, level text, level note, design ref)
CLAIMS = {
 'C01': ('exploration',
         'differential testing against a clean-room Noise rev34 reference model validated on the cacophony vectors (proptest + name-space enumeration)',
         'Every generated session (all 556 handshake strings, all 24 primitive suites, custom names, permuted modifiers, max-length payloads, transport scripts, both roles, mixed snow/model sessions) is compared byte for byte with an independent model of the specification; snow is also run directly against the 472 third-party cacophony vectors. Held on everything explored; no proof of absence.',
         'Trusts: refnoise model (self-tested on cacophony vectors on every run), ring + own BLAKE2/HMAC/HKDF as primitive oracles, proptest.',
         'DESIGN.md 3 C01'),
}
NOT_YET = 'check not built yet in this phase (planned, see DESIGN.md 3.22)'

checks = []
for i in ids:
    if i in CLAIMS:
        cat, tech, text, note, ref = CLAIMS[i]
        checks.append({
            'property_id': i,
            'quick_cmd': f'./check {i} quick',
            'thorough_cmd': f'./check {i} thorough',
            'evidence_file': f'/verif/evidence/{i}.json',
            'replay_cmd_template': f'./check {i} --replay {{path}}',
            'engine': 'snowverif',
            'level_claimed': {'category': cat, 'text': text, 'design_ref': ref},
            'level_note': note,
            'technique': tech,
        })
man = {
 'version': 1,
 'setup_cmd': 'cd harness && CARGO_NET_OFFLINE=true cargo build --release',
 'hooks': {
   'guard': 'cargo feature verif-hooks (off by default)',
   'enable': 'the harness depends on snow by path ../../repo with features use-p256 use-xchacha20poly1305 ring-resolver verif-hooks',
   'baseline_off_cmd': 'cd /repo && cargo test --workspace --no-fail-fast --offline',
   'source_commits': ['090cda1'],
   'add_only': True,
 },
 'engines': [
   {'name': 'snowverif', 'path': 'harness', 'serves_properties': [c['property_id'] for c in checks],
    'kind_free_text': 'Rust binary: proptest-as-library random search with shrinking, exhaustive enumerators, reference-model / differential / metamorphic / history-invariant oracles, 16 deterministic shards seeded from VERIF_SEED'},
 ],
 'checks': checks,
 'not_applicable': [{'property_id': i, 'reason': NOT_YET} for i in ids if i not in CLAIMS],
 'notes': 'Exit codes: 0 held, 1 VIOLATION (replay file under /verif/out/replays), 2 inconclusive (build failure, oracle self-test failure, generator hole). Known findings: /verif/known_findings.json.',
}
json.dump(man, open(os.path.join(here, 'MANIFEST.json'), 'w'), indent=1)
print('checks:', len(checks), 'not_applicable:', len(man['not_applicable']))
