#!/usr/bin/env bash
# tools/trymut.sh <patch-file> <Cnn> [<Cnn>...]  : apply a patch to /repo, run quick checks, revert.
# Prints one line per check: <id> exit=<rc> <seconds>s. Never leaves /repo modified.
set -u
patch="$1"; shift
here="$(cd "$(dirname "${BASH_SOURCE[0]}")/.." && pwd)"
if ! git -C /repo diff --quiet; then echo "refusing: /repo has uncommitted changes"; exit 2; fi
if ! git -C /repo apply "$patch"; then echo "patch does not apply"; exit 2; fi
trap 'git -C /repo checkout -- . ' EXIT
for id in "$@"; do
  t0=$(date +%s.%N)
  out="$("$here/check" "$id" ${TIER:-quick} 2>&1)"; rc=$?
  t1=$(date +%s.%N)
  printf "%s exit=%s %.1fs  %s\n" "$id" "$rc" "$(echo "$t1 - $t0" | bc)" "$(echo "$out" | grep -m1 -A3 -E 'VIOLATION|INCONCLUSIVE' | tr '\n' ' ' | cut -c1-300)"
done
