#!/usr/bin/env bash
# tools/verify_seed.sh <dir with patch.diff + demo.rs>  : confirm a seeded change in a scratch worktree
# (baseline tests pass with it; demo fails with it and passes without it). Uses a scratch worktree of
# /repo at /scratch/wt (created on demand; remove it afterwards with
# `git -C /repo worktree remove --force /scratch/wt`).
d="$1"; WT="${VERIFY_SEED_WT:-/scratch/wt}"; mkdir -p "$(dirname "$WT")"; [ -d "$WT/.git" ] || [ -f "$WT/.git" ] || git -C /repo worktree add --detach "$WT" HEAD >/dev/null 2>&1; F="use-p256,use-xchacha20poly1305,ring-resolver,verif-hooks"
git -C $WT checkout -q -- . ; rm -f $WT/tests/demo.rs
cp "$d/demo.rs" $WT/tests/demo.rs
clean=$(cd $WT && cargo test --offline --features $F --test demo 2>&1 | grep -E "^test result" | tr '\n' ' ')
git -C $WT apply "$d/patch.diff" || { echo "patch does not apply"; exit 2; }
base=$(cd $WT && mv tests/demo.rs /tmp/demo_hold.rs && cargo test --offline 2>&1 | grep -E "^test result" | awk '{p+=$4; f+=$6} END {print p" passed/"f" failed"}'; mv /tmp/demo_hold.rs tests/demo.rs)
with=$(cd $WT && cargo test --offline --features $F --test demo 2>&1 | grep -E "^test result" | tr '\n' ' ')
git -C $WT checkout -q -- . ; rm -f $WT/tests/demo.rs
echo "demo on clean tree : $clean"
echo "baseline with patch: $base"
echo "demo with patch    : $with"
