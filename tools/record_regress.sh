#!/usr/bin/env bash
# Kept for the record (DESIGN.md 8.6-8.15): the script that produced seeded/RESULTS_*. Not used by any
# registered check. It expects an isolated copy of /verif (git archive) at /scratch/mutenv/verif next to
# a scratch worktree of /repo at /scratch/mutenv/repo (mutmatrix/regress), or applies the patch to /repo
# itself and reverts it (seedmatrix).
# regression of detection: for every seed / own mutant run ONLY its target check (isolated env)
out=/scratch/regress.txt; : > $out
R=/scratch/mutenv/repo; V=/scratch/mutenv/verif
run() { # name diff check
  git -C $R checkout -q -- . ; git -C $R clean -fdq src
  if ! git -C $R apply "$2" 2>/dev/null; then echo "$1 APPLY_FAILED" >> $out; return; fi
  o="$(cd $V && VERIF_DIR=$V ./check $3 quick 2>&1)"; rc=$?
  echo "$1 $3=$rc" >> $out
}
for d in /verif/seeded/*/; do id=$(basename $d); [ -f $d/patch.diff ] || continue; run $id $d/patch.diff C${id:1}; done
for f in /verif/mutants/*.diff; do n=$(basename $f .diff); c=$(echo ${n:0:3} | tr a-z A-Z); run $n $f $c; done
git -C $R checkout -q -- .
echo DONE >> $out
