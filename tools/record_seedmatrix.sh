#!/usr/bin/env bash
# Kept for the record (DESIGN.md 8.6-8.15): the script that produced seeded/RESULTS_*. Not used by any
# registered check. It expects an isolated copy of /verif (git archive) at /scratch/mutenv/verif next to
# a scratch worktree of /repo at /scratch/mutenv/repo (mutmatrix/regress), or applies the patch to /repo
# itself and reverts it (seedmatrix).
# apply each seeded change to /repo, run all quick checks from /verif, undo.
out="$1"; shift
for id in "$@"; do
  d=/verif/seeded/$id
  if ! git -C /repo diff --quiet; then echo "repo dirty"; exit 2; fi
  git -C /repo apply $d/patch.diff || { echo "$id APPLY_FAILED" >> $out; continue; }
  line="$id"
  for i in 01 02 03 04 05 06 07 08 09 10 11 12 13 14 15 16 17 18 19 20; do
    o="$(cd /verif && ./check C$i quick 2>&1)"; rc=$?
    if [ $rc -ne 0 ]; then line="$line C$i=$rc"; fi
    if [ $rc -ne 0 ]; then echo "--- $id C$i rc=$rc: $(echo "$o" | grep -m1 -A3 -E 'VIOLATION|INCONCLUSIVE' | tr '\n' ' ' | cut -c1-500)" >> "$out.detail"; fi
  done
  echo "$line" >> "$out"
  git -C /repo checkout -- .
done
echo DONE >> "$out"
