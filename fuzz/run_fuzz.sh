#!/usr/bin/env bash
# fuzz/run_fuzz.sh <Cnn> : coverage-guided campaign (libFuzzer via cargo-fuzz, nightly) for the
# properties that have a byte-level target. Bounded by -runs and a wall-clock guard.
# exit 0 no crash; 1 + VIOLATION line (artifact = replay file); 2 inconclusive (build/time-out).
set -u
here="$(cd "$(dirname "${BASH_SOURCE[0]}")" && pwd)"; verif="$(dirname "$here")"
prop="${1:-}"
case "$prop" in
  C10) target=api_ops; runs=${FUZZ_RUNS:-300000}; maxlen=400 ;;
  C13) target=name_parse; runs=${FUZZ_RUNS:-3000000}; maxlen=80 ;;
  C03) target=hs_alter; runs=${FUZZ_RUNS:-400000}; maxlen=200 ;;
  C04) target=tr_forge; runs=${FUZZ_RUNS:-400000}; maxlen=120 ;;
  *) exit 0 ;;
esac
seed="${VERIF_SEED:-1}"; [ "$seed" = "0" ] && seed=1
export CARGO_NET_OFFLINE=true
work="$verif/fuzz/corpus-tmp/$target"; rm -rf "$work"; mkdir -p "$work" "$verif/out/fuzz-artifacts/$target"
cp "$verif/corpus/$target"/* "$work"/ 2>/dev/null
log="$verif/out/fuzz-$target.log"
cd "$verif/harness" || exit 2
if ! cargo +nightly fuzz build --fuzz-dir "$verif/fuzz" --sanitizer none "$target" > "$log" 2>&1; then
  echo "INCONCLUSIVE property=$prop fuzz target build failed (see $log)"; exit 2
fi
# 8 parallel libFuzzer jobs sharing the corpus directory, each with runs/8 executions
jobs=8; per=$((runs / jobs))
( cd "$verif/harness" && timeout ${FUZZ_TIMEOUT:-1500} cargo +nightly fuzz run --fuzz-dir "$verif/fuzz" --sanitizer none "$target" "$work" -- \
  -runs="$per" -seed="$seed" -len_control=0 -max_len=$maxlen -jobs=$jobs -workers=$jobs -artifact_prefix="$verif/out/fuzz-artifacts/$target/" ) >> "$log" 2>&1
rc=$?
cat "$verif"/harness/fuzz-[0-9]*.log >> "$log" 2>/dev/null; rm -f "$verif"/harness/fuzz-[0-9]*.log
execs="$jobs jobs x $(grep -oE "Done [0-9]+ runs" "$log" | tail -1)"
if [ $rc -eq 124 ]; then echo "INCONCLUSIVE property=$prop fuzz campaign hit its wall-clock guard ($execs)"; rm -rf "$work"; exit 2; fi
if [ $rc -ne 0 ]; then
  art=$(ls -t "$verif/out/fuzz-artifacts/$target"/crash-* 2>/dev/null | head -1)
  if [ -n "$art" ]; then echo "VIOLATION property=$prop replay=$art"; grep -m3 -E "violation|panicked" "$log"; rm -rf "$work"; exit 1; fi
  echo "INCONCLUSIVE property=$prop fuzz run failed without an artifact (rc=$rc, see $log)"; rm -rf "$work"; exit 2
fi
echo "fuzz $target: $execs, no crash (seed $seed, corpus from corpus/$target)"
rm -rf "$work"
exit 0
