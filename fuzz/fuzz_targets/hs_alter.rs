#![no_main]
//! libFuzzer target for C03: bytes -> (handshake string, suite, message index, payload length,
//! cut, XOR mask over the genuine handshake message) -> the C03 oracle (an altered message is
//! rejected by the read if it touches an encrypted field, and the two parties never both finish
//! without an error).
use libfuzzer_sys::fuzz_target;
use snowverif::props::c03;

fuzz_target!(|data: &[u8]| {
    if let Err(m) = c03::fuzz_judge(data) {
        eprintln!("C03 violation: {m}");
        std::process::abort();
    }
});
