#![no_main]
//! libFuzzer target for C13: arbitrary UTF-8 -> parser vs reference recogniser.
use libfuzzer_sys::fuzz_target;
use snowverif::engine::Acc;
use snowverif::props::c13;

fuzz_target!(|data: &[u8]| {
    let Ok(s) = std::str::from_utf8(data) else { return };
    let mut acc = Acc::default();
    if let Err(f) = c13::judge(s, &mut acc, 2) {
        eprintln!("C13 violation: {}", f.msg);
        std::process::abort();
    }
});
