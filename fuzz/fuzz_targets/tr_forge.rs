#![no_main]
//! libFuzzer target for C04: bytes -> (configuration, direction, mode, payload length, output
//! buffer class, counter position, cut, XOR mask over the genuine transport message) -> the C04
//! oracle (every byte string other than the genuine message is rejected, and the genuine message
//! is still accepted afterwards).
use libfuzzer_sys::fuzz_target;
use snowverif::props::c04;

fuzz_target!(|data: &[u8]| {
    if let Err(m) = c04::fuzz_judge(data) {
        eprintln!("C04 violation: {m}");
        std::process::abort();
    }
});
