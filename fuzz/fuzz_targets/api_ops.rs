#![no_main]
//! libFuzzer target for C10 (and the turn/phase indicators of C11): bytes -> API op script
//! (same interpreter as the proptest strategy) -> no call may panic.
use libfuzzer_sys::fuzz_target;
use snowverif::ops;

fuzz_target!(|data: &[u8]| {
    let script = ops::decode(data);
    match ops::execute(&script) {
        Ok(_) => {},
        Err(f) => {
            // known finding (invalid P-256 scalar) is excluded by construction in `decode`;
            // anything else is a violation: abort so libFuzzer saves the input
            eprintln!("C10 violation: {}\nscript: {:?}", f.msg, script);
            std::process::abort();
        },
    }
});
