//! snowverif library: engine, oracles and the 20 property checks (shared by the CLI binary
//! and the cargo-fuzz targets).

#[macro_use]
pub mod engine;
pub mod instr;
pub mod ops;
pub mod props;
pub mod refcrypto;
pub mod refnoise;
pub mod sess;
