//! C12 Builder accepts exactly the configurations the pattern needs (exhaustive enumeration).

use super::common::*;
use super::PropDef;
use crate::engine::{Acc, CaseResult, Ctx, Fail, Tier};
use crate::instr::PartialResolver;
use crate::refcrypto::DhKind;
use crate::refnoise as rn;
use crate::sess::*;
use serde::{Deserialize, Serialize};
use snow::error::{InitStage, PatternProblem, Prerequisite, StateProblem};
use snow::Error;

pub const DEF: PropDef = PropDef {
    id: "C12",
    run,
    replay,
    level: "exploration",
    rule: "complete enumeration of the finite configuration space: (A) 38 patterns x {25519,P256} (suite rotating over all ciphers and hashes, resolver rotating over default / ring-over-default / default-over-ring) x all 16 combinations of {local static, remote static} supplied to the two roles, also on every single-psk variant of the pattern with the PSK given at build time or left for set_psk(): each build must be Ok iff the role's required keys (derived from the harness's own pattern table: local static iff the role's s occurs as pre-message or message token; remote static iff the peer's s is a pre-message) are supplied, else Err(Prereq(..)) naming a missing item; every pair that builds runs an honest handshake that must complete without any error. (B) 38 patterns x psk modifier sets (every single index 0..=9, every subset of 0..=4, fallback, psk+fallback) with all keys: Ok iff every index <= #messages and no fallback, else Err(Pattern(InvalidPsk|UnsupportedModifier)). (C) resolvers lacking each of rng/dh/hash/cipher and DH 448 x both roles x generate_keypair: the matching Err(Init(Get..Impl)). (D) psk handshake strings x every subset of PSKs supplied at build time on either side (PSK values random, and - for equal subsets - an all-zero / all-ones first PSK): the handshake proceeds exactly until the first call whose message contains an unsupplied psk token, that call returns Err, and such a pair never completes. Non-trivial = a configuration where exactly one required item is missing or an optional one is extra, or a PSK is missing; distinct by configuration tuple",
    technique: "exhaustive enumeration of the builder configuration space against requirements derived from an independent pattern table",
    assumptions: &[],
    panic_is_violation: false,
    needs_refnoise: false,
};

#[derive(Clone, Debug, Serialize, Deserialize)]
pub enum Case {
    /// A: keys supplied (s_i, rs_i, s_r, rs_r)
    Keys {
        pattern: String,
        dh: DhKind,
        s_i: bool,
        rs_i: bool,
        s_r: bool,
        rs_r: bool,
        /// the same table on a name with one psk modifier: Some((index, supplied at build time?));
        /// a PSK left for set_psk() must not change which static keys the build asks for
        #[serde(default)]
        psk: Option<(u8, bool)>,
    },
    /// B: modifier string after the pattern name
    Mods { pattern: String, mods: String, psk_indices: Vec<u8>, fallback: bool },
    /// C: lacking primitive kind 0 rng 1 dh 2 hash 3 cipher, 4 = DH 448 with the default resolver
    Lacking { kind: u8, initiator: bool, pattern: String },
    /// D: psk subsets supplied at build
    PskSupply {
        hs: HsName,
        supplied_i: Vec<u8>,
        supplied_r: Vec<u8>,
        /// 0 random PSK values, 1 the first PSK is all zero, 2 all ones (values a caller may use)
        #[serde(default)]
        shape: u8,
    },
}

fn oracle(c: &Case, acc: &mut Acc) -> CaseResult {
    let suites = all_suites();
    match c {
        Case::Keys { pattern, dh, s_i, rs_i, s_r, rs_r, psk } => {
            // the suite rotates over all 12 of this DH, and the resolver over the default one and the
            // two fallback compositions with ring (ring has no BLAKE2, XChaChaPoly or DH: a name
            // is buildable if ANY member provides the primitive)
            let of_dh: Vec<_> = suites.iter().filter(|s| s.dh == *dh).collect();
            let rot = pattern.bytes().map(|b| b as usize).sum::<usize>() + (*s_i as usize) * 3 + (*rs_i as usize) * 5 + (*s_r as usize) * 7 + (*rs_r as usize) * 11 + psk.map_or(0, |p| p.0 as usize * 13 + p.1 as usize);
            let suite = *of_dh[rot % of_dh.len()];
            // key material differs from configuration to configuration (incl. the shaped keys
            // of sess::shaped_priv / golden_shaped)
            let kseed = 0xC12 + pattern.bytes().map(|b| b as u64).sum::<u64>() * 16 + (*s_i as u64) + 2 * (*rs_i as u64) + 4 * (*s_r as u64) + 8 * (*rs_r as u64);
            let mut spec = SessionSpec::simple(HsName { pattern: pattern.clone(), psks: psk.map(|p| vec![p.0]).unwrap_or_default() }, suite, kseed);
            spec.backend_i = crate::instr::BACKENDS[rot % 3];
            spec.backend_r = crate::instr::BACKENDS[(rot / 3) % 3];
            let pat = spec.pattern();
            let omit: Vec<u8> = match psk {
                Some((n, false)) => vec![*n],
                _ => vec![],
            };
            let mut built = Vec::new();
            let mut interesting = false;
            for (init, s, rs) in [(true, *s_i, *rs_i), (false, *s_r, *rs_r)] {
                let need_s = pat.role_uses_static(init);
                let need_rs = pat.role_needs_remote_static(init);
                let ov = EpOverrides { supply_s: Some(s), supply_rs: Some(rs), omit_psks: omit.clone(), ..Default::default() };
                let res = build_snow(&spec, init, &ov, &Instr::none());
                let role = if init { "initiator" } else { "responder" };
                let should = (!need_s || s) && (!need_rs || rs);
                let cfg = format!("{} {role}: local static {} (needed: {need_s}), remote static {} (needed: {need_rs})", spec.name_string(), if s { "supplied" } else { "absent" }, if rs { "supplied" } else { "absent" });
                match res {
                    Ok(h) => {
                        ensure!(should, "{cfg}: build succeeded although a required key is missing");
                        built.push(h);
                    },
                    Err(err) => {
                        ensure!(!should, "{cfg}: build failed with {err:?} although everything the pattern needs was supplied");
                        let ok = match err {
                            Error::Prereq(Prerequisite::LocalPrivateKey) => need_s && !s,
                            Error::Prereq(Prerequisite::RemotePublicKey) => need_rs && !rs,
                            _ => false,
                        };
                        ensure!(ok, "{cfg}: build failed with {err:?}, expected a Prereq error naming a missing item");
                    },
                }
                let missing = (need_s && !s) as u8 + (need_rs && !rs) as u8;
                let extra = (!need_s && s) as u8 + (!need_rs && rs) as u8;
                if missing == 1 || extra > 0 {
                    interesting = true;
                }
            }
            if built.len() == 2 {
                let mut hr = built.pop().unwrap();
                let mut hi = built.pop().unwrap();
                for n in &omit {
                    hi.set_psk(*n as usize, &spec.psk(*n)).map_err(|x| Fail::new(format!("{}: set_psk({n}): {x:?}", spec.name_string())))?;
                    hr.set_psk(*n as usize, &spec.psk(*n)).map_err(|x| Fail::new(format!("{}: set_psk({n}): {x:?}", spec.name_string())))?;
                }
                if psk.is_some() {
                    acc.label(if omit.is_empty() { "A:psk_name_psk_at_build" } else { "A:psk_name_psk_by_set_psk" });
                }
                for idx in 0..spec.n_msgs() {
                    let (w, r) = if idx % 2 == 0 { (&mut hi, &mut hr) } else { (&mut hr, &mut hi) };
                    let m = hs_write(w, b"pay", 65535).map_err(|x| Fail::new(format!("{} (keys {c:?}): successfully built pair fails later: write {idx}: {x:?}", spec.name_string())))?;
                    hs_read(r, &m, 65535).map_err(|x| Fail::new(format!("{} (keys {c:?}): successfully built pair fails later: read {idx}: {x:?}", spec.name_string())))?;
                }
                ensure!(hi.is_handshake_finished() && hr.is_handshake_finished(), "{}: built pair does not finish", spec.name_string());
                acc.label("A:pair_ran");
            }
            acc.label("A:keys");
            if interesting {
                acc.nontrivial(&format!("{c:?}"));
            }
        },
        Case::Mods { pattern, mods, psk_indices, fallback } => {
            let pat = rn::pattern(pattern).unwrap();
            let nm = pat.msgs.len();
            let name = format!("Noise_{pattern}{mods}_25519_ChaChaPoly_SHA256");
            let params: snow::params::NoiseParams = name.parse().map_err(|x| Fail::new(format!("{name}: does not parse: {x:?}")))?;
            let spec = SessionSpec::simple(HsName { pattern: pattern.clone(), psks: vec![] }, suites[0], 0xC12);
            let psk_vals: Vec<[u8; 32]> = psk_indices.iter().map(|n| spec.psk(*n)).collect();
            for init in [true, false] {
                let mut b = snow::Builder::new(params.clone());
                let sp = spec.s_priv(init);
                let rp = spec.s_pub(!init);
                b = b.local_private_key(&sp).unwrap().remote_public_key(&rp).unwrap();
                for (n, v) in psk_indices.iter().zip(psk_vals.iter()) {
                    b = b.psk(*n, v).map_err(|x| Fail::new(format!("{name}: Builder::psk({n}): {x:?}")))?;
                }
                let res = if init { b.build_initiator() } else { b.build_responder() };
                // every psk index written in the name must fit (indices >= 10 never fit and cannot be supplied)
                let named: Vec<u32> = mods.split('+').filter_map(|m| m.strip_prefix("psk").and_then(|d| d.parse().ok())).collect();
                let should = !*fallback && named.iter().all(|n| *n as usize <= nm);
                match res {
                    Ok(_) => ensure!(should, "{name}: build succeeded although the modifiers do not fit the pattern ({nm} messages) or are not implemented"),
                    Err(err) => {
                        ensure!(!should, "{name}: build failed with {err:?} although every modifier fits ({nm} messages)");
                        let ok = matches!(err, Error::Pattern(PatternProblem::InvalidPsk) | Error::Pattern(PatternProblem::UnsupportedModifier));
                        ensure!(ok, "{name}: build failed with {err:?}, expected Pattern(InvalidPsk | UnsupportedModifier)");
                    },
                }
            }
            acc.label("B:modifiers");
            acc.nontrivial(&name);
        },
        Case::Lacking { kind, initiator, pattern } => {
            let name = if *kind == 4 { format!("Noise_{pattern}_448_ChaChaPoly_SHA256") } else { format!("Noise_{pattern}_25519_ChaChaPoly_SHA256") };
            let params: snow::params::NoiseParams = name.parse().map_err(|x| Fail::new(format!("{name}: {x:?}")))?;
            let mut provides = [true; 4];
            if *kind < 4 {
                provides[*kind as usize] = false;
            }
            let spec = SessionSpec::simple(HsName { pattern: pattern.clone(), psks: vec![] }, suites[0], 0xC12);
            let mk = || -> snow::Builder<'static> {
                if *kind == 4 {
                    snow::Builder::new(params.clone())
                } else {
                    snow::Builder::with_resolver(params.clone(), Box::new(PartialResolver { provides, tag: "X" }))
                }
            };
            let sp = spec.s_priv(*initiator);
            let rp = spec.s_pub(!*initiator);
            let b = mk().local_private_key(&sp).unwrap().remote_public_key(&rp).unwrap();
            let res = if *initiator { b.build_initiator() } else { b.build_responder() };
            let want = match kind {
                0 => InitStage::GetRngImpl,
                1 | 4 => InitStage::GetDhImpl,
                2 => InitStage::GetHashImpl,
                _ => InitStage::GetCipherImpl,
            };
            match res {
                Ok(_) => fail!("{name}: build succeeded with a resolver lacking primitive kind {kind}"),
                Err(err) => {
                    let wants = format!("{want:?}");
                    ensure!(err == Error::Init(want), "{name}: resolver lacking kind {kind}: build returned {err:?}, expected Init({wants})")
                },
            }
            // generate_keypair needs rng and dh only
            let kp = mk().generate_keypair();
            match kind {
                0 => ensure!(matches!(kp, Err(Error::Init(InitStage::GetRngImpl))), "{name}: generate_keypair without an RNG returned {:?}", kp.as_ref().map(|_| "Ok").map_err(|e| format!("{e:?}"))),
                1 | 4 => ensure!(matches!(kp, Err(Error::Init(InitStage::GetDhImpl))), "{name}: generate_keypair without the DH returned {:?}", kp.as_ref().map(|_| "Ok").map_err(|e| format!("{e:?}"))),
                _ => ensure!(kp.is_ok(), "{name}: generate_keypair failed although rng and dh are provided"),
            }
            acc.label("C:lacking_resolver");
            acc.nontrivial(&format!("{c:?}"));
        },
        Case::PskSupply { hs, supplied_i, supplied_r, shape } => {
            let spec = SessionSpec::simple(hs.clone(), suites[(hs.psks.len() * 5) % suites.len()], [0xC12Du64, 0xC129, 0xC12A][*shape as usize % 3]);
            if *shape % 3 != 0 {
                ensure!(spec.psk(*hs.psks.iter().min().unwrap()) == [[0u8; 32], [0xffu8; 32]][*shape as usize % 3 - 1], "harness: shaped psk");
                acc.label("D:shaped_psk_value");
            }
            let name = spec.name_string();
            let omit = |sup: &Vec<u8>| hs.psks.iter().copied().filter(|n| !sup.contains(n)).collect::<Vec<u8>>();
            let (om_i, om_r) = (omit(supplied_i), omit(supplied_r));
            let mut hi = build_snow(&spec, true, &EpOverrides { omit_psks: om_i.clone(), ..Default::default() }, &Instr::none())
                .map_err(|x| Fail::new(format!("{name}: build without psks {om_i:?} failed: {x:?} (a psk may be supplied later with set_psk)")))?;
            let mut hr = build_snow(&spec, false, &EpOverrides { omit_psks: om_r.clone(), ..Default::default() }, &Instr::none())
                .map_err(|x| Fail::new(format!("{name}: build without psks {om_r:?} failed: {x:?}")))?;
            let toks = spec.pattern().with_psks(&hs.psks).unwrap();
            let needs = |idx: usize, om: &Vec<u8>| toks[idx].iter().any(|t| matches!(t, rn::Tok::Psk(n) if om.contains(n)));
            let mut stopped = false;
            for idx in 0..spec.n_msgs() {
                let i_sends = idx % 2 == 0;
                let (w, r, om_w, om_rd) = if i_sends { (&mut hi, &mut hr, &om_i, &om_r) } else { (&mut hr, &mut hi, &om_r, &om_i) };
                let mut buf = vec![0u8; 65535];
                let wres = w.write_message(b"data", &mut buf);
                if needs(idx, om_w) {
                    ensure!(wres.is_err(), "{name}: message {idx} needs a psk the writer was never given (missing {om_w:?}) but the write succeeded - a default key must have been used");
                    acc.label(format!("D:write_err:{}", matches!(wres, Err(Error::State(StateProblem::MissingPsk)))));
                    stopped = true;
                    break;
                }
                let n = wres.map_err(|x| Fail::new(format!("{name}: message {idx} write failed ({x:?}) although no psk of this message is missing (writer lacks {om_w:?})")))?;
                let mut pb = vec![0u8; 65535];
                let rres = r.read_message(&buf[..n], &mut pb);
                if needs(idx, om_rd) {
                    ensure!(rres.is_err(), "{name}: message {idx} needs a psk the reader was never given (missing {om_rd:?}) but the read succeeded - a default key must have been used");
                    acc.label(format!("D:read_err:{}", matches!(rres, Err(Error::State(StateProblem::MissingPsk)))));
                    stopped = true;
                    break;
                }
                rres.map_err(|x| Fail::new(format!("{name}: message {idx} read failed ({x:?}) although no psk of this message is missing (reader lacks {om_rd:?})")))?;
            }
            if om_i.is_empty() && om_r.is_empty() {
                ensure!(!stopped && hi.is_handshake_finished() && hr.is_handshake_finished(), "{name}: complete psk supply does not finish");
            } else {
                ensure!(stopped, "{name}: psks missing (initiator {om_i:?}, responder {om_r:?}) but the handshake completed");
                acc.nontrivial(&format!("{c:?}"));
            }
            acc.label("D:psk_supply");
        },
    }
    Ok(())
}

pub fn run(ctx: &Ctx) {
    let pats = rn::all_patterns();
    let mut cases = Vec::new();
    for p in &pats {
        for dh in [DhKind::X25519, DhKind::P256] {
            for m in 0..16u8 {
                cases.push(Case::Keys { pattern: p.name.clone(), dh, s_i: m & 1 != 0, rs_i: m & 2 != 0, s_r: m & 4 != 0, rs_r: m & 8 != 0, psk: None });
                // ... and on every single-psk variant of the pattern, PSK given at build time or left for set_psk
                if dh == DhKind::X25519 {
                    for n in 0..=p.msgs.len() as u8 {
                        for at_build in [true, false] {
                            cases.push(Case::Keys { pattern: p.name.clone(), dh, s_i: m & 1 != 0, rs_i: m & 2 != 0, s_r: m & 4 != 0, rs_r: m & 8 != 0, psk: Some((n, at_build)) });
                        }
                    }
                }
            }
        }
        for n in 0..=9u8 {
            cases.push(Case::Mods { pattern: p.name.clone(), mods: format!("psk{n}"), psk_indices: vec![n], fallback: false });
        }
        for mask in 1u8..32 {
            let idx: Vec<u8> = (0..5u8).filter(|i| mask & (1 << i) != 0).collect();
            if idx.len() < 2 {
                continue;
            }
            let mods = idx.iter().map(|n| format!("psk{n}")).collect::<Vec<_>>().join("+");
            cases.push(Case::Mods { pattern: p.name.clone(), mods, psk_indices: idx, fallback: false });
        }
        // order must not matter: every ordered pair over psk0..psk9, and ordered triples over a boundary set
        for a in 0..=9u8 {
            for b in 0..=9u8 {
                if a != b && !(a < b && b <= 4) {
                    cases.push(Case::Mods { pattern: p.name.clone(), mods: format!("psk{a}+psk{b}"), psk_indices: vec![a, b], fallback: false });
                }
            }
        }
        let nmm = p.msgs.len() as u8;
        let bset = [0u8, 1, nmm, nmm + 1, 9];
        for a in bset {
            for b in bset {
                for c in bset {
                    if a != b && b != c && a != c {
                        cases.push(Case::Mods { pattern: p.name.clone(), mods: format!("psk{a}+psk{b}+psk{c}"), psk_indices: vec![a, b, c], fallback: false });
                    }
                }
            }
        }
        for big in [10u16, 42, 200, 255] {
            cases.push(Case::Mods { pattern: p.name.clone(), mods: format!("psk{big}+psk0"), psk_indices: vec![0], fallback: false });
            cases.push(Case::Mods { pattern: p.name.clone(), mods: format!("psk1+psk{big}"), psk_indices: vec![1], fallback: false });
        }
        cases.push(Case::Mods { pattern: p.name.clone(), mods: "fallback".into(), psk_indices: vec![], fallback: true });
        cases.push(Case::Mods { pattern: p.name.clone(), mods: "fallback+psk0".into(), psk_indices: vec![0], fallback: true });
        cases.push(Case::Mods { pattern: p.name.clone(), mods: "psk1+fallback".into(), psk_indices: vec![1], fallback: true });
        for kind in 0..5u8 {
            for initiator in [true, false] {
                cases.push(Case::Lacking { kind, initiator, pattern: p.name.clone() });
            }
        }
    }
    // D: all subsets of supplied psks on both sides for strings with <= 2 (quick) / any (thorough) psks
    for hs in all_hs_names() {
        let k = hs.psks.len();
        if k == 0 || (ctx.tier == Tier::Quick && k > 3) || k > 5 {
            continue;
        }
        for mi in 0..(1u32 << k) {
            for mr in 0..(1u32 << k) {
                let sel = |m: u32| hs.psks.iter().enumerate().filter(|(i, _)| m & (1 << i) != 0).map(|(_, n)| *n).collect::<Vec<u8>>();
                cases.push(Case::PskSupply { hs: hs.clone(), supplied_i: sel(mi), supplied_r: sel(mr), shape: 0 });
                if mi == mr {
                    // the all-zero / all-ones PSK is a supplied PSK like any other
                    cases.push(Case::PskSupply { hs: hs.clone(), supplied_i: sel(mi), supplied_r: sel(mr), shape: 1 });
                    cases.push(Case::PskSupply { hs: hs.clone(), supplied_i: sel(mi), supplied_r: sel(mr), shape: 2 });
                }
            }
        }
    }
    ctx.note(format!("{} configurations enumerated", cases.len()));
    ctx.run_list("configurations", &cases, true, oracle);
}

pub fn replay(ctx: &Ctx, sub: &str, case: &serde_json::Value, origin: &str) -> bool {
    ctx.replay_case::<Case, _>(sub, case, oracle, origin)
}
