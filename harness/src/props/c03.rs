//! C03 Handshake transcript integrity: any alteration in transit is detected.

use super::c10::{boundaries, drive_to};
use super::common::*;
use super::PropDef;
use crate::engine::{expand, mix, pick, Acc, CaseResult, Ctx, Fail, Tier};
use crate::refcrypto::{CipherKind, DhKind};
use crate::refnoise::FieldKind;
use crate::sess::*;
use proptest::prelude::*;
use serde::{Deserialize, Serialize};

pub const DEF: PropDef = PropDef {
    id: "C03",
    run,
    replay,
    level: "fault_enumeration",
    rule: "fault enumeration: (handshake string, suite, message index i, alteration of message i) on an otherwise honest session; alterations: single-bit flips (first/last bit of every field and tag + random ones; ALL bits in the thorough tier), byte set, every truncation at field boundaries +-1 (ALL lengths in thorough), extension by 1/16/64, random multi-byte edits, replacement by every earlier message of the session, by the same-index message of a parallel session with all-different keys and (interactive patterns) of a parallel session with the same static keys and fresh ephemerals. The same alteration set is applied to messages with LARGE payloads (1000 .. 4 KiB+-1 .. 9000 .. 12 KiB .. 32 KiB .. the per-message maximum) for every base pattern on a 25519 and a P-256 suite. Alterations that leave the bytes unchanged are discarded. Oracle: after delivering the altered message and continuing honestly, it never happens that every call succeeded and both parties report finished; if the altered bytes touch an encrypted field (or the length changed while the payload is encrypted) the receiving read itself returns Err. Non-trivial = altered != original and the unaltered session completes; distinct by (name, suite, i, alteration)",
    technique: "fault enumeration over message alterations with field maps from the reference model; proptest for random multi-byte edits (+ libFuzzer target hs_alter in the thorough tier: coverage-guided XOR masks / cuts / extensions over the genuine message, judged by the same oracle)",
    assumptions: &[
        "for one-way patterns a complete message of a parallel session of the same initiator (same static keys, PSKs, prologue) is a genuine message in its own right and is not an alteration the responder could detect; that substitution is generated only for interactive patterns",
    ],
    panic_is_violation: false,
    needs_refnoise: false,
};

#[derive(Clone, Debug, Serialize, Deserialize, PartialEq, Eq, Hash)]
pub enum Alt {
    Flip(usize, u8),
    Set(usize, u8),
    Trunc(usize),
    Extend(usize),
    Multi(u64, u8),
    Earlier(usize),
    ParallelOtherKeys,
    ParallelSameStatics,
    /// replace the ephemeral public key by a different encoding / related valid point that
    /// yields the same DH outputs: P-256 (X, Y) -> (X, p - Y); X25519: top bit of u set
    RelatedEphemeral,
    /// swap two 16-byte blocks of the message (block indices modulo the number of blocks)
    SwapBlocks(u16, u16),
    /// byte-level alteration from the fuzzer: the genuine message cut by `trunc` bytes (modulo its
    /// length), XORed with `mask`; mask bytes beyond the message are appended
    Mask { trunc: u16, mask: Vec<u8> },
}

#[derive(Clone, Debug, Serialize, Deserialize)]
pub struct Case {
    pub spec: SessionSpec,
    pub idx: usize,
    pub alt: Alt,
    pub plen: usize,
}

fn oracle(c: &Case, acc: &mut Acc) -> CaseResult {
    // in a quarter of the cases both parties also pin the peer's true static key although the
    // pattern transmits it: what arrives must still be what is authenticated
    let mut pinned = c.spec.clone();
    if c.spec.key_seed % 4 == 1 {
        pinned.pin_rs = true;
        acc.label("remote_static:pinned_although_transmitted");
    }
    let c = &Case { spec: pinned, idx: c.idx, alt: c.alt.clone(), plen: c.plen };
    let spec = &c.spec;
    let name = spec.name_string();
    let nm = spec.n_msgs();
    let lay = spec.layouts();
    let mut pair = build_pair(spec, None)?;
    let mut earlier: Vec<Vec<u8>> = Vec::new();
    for k in 0..c.idx {
        let (w, r) = if k % 2 == 0 { (&mut pair.i, &mut pair.r) } else { (&mut pair.r, &mut pair.i) };
        let m = hs_write(w, &spec.payload(k, other_plen(c.plen)), 65535 + 16).map_err(|x| Fail::setup(format!("{name}: prefix write {k}: {}", e(&x))))?;
        hs_read(r, &m, 65535).map_err(|x| Fail::setup(format!("{name}: prefix read {k}: {}", e(&x))))?;
        earlier.push(m);
    }
    let i_sends = c.idx % 2 == 0;
    let payload = spec.payload(c.idx, c.plen);
    let genuine = {
        let w = if i_sends { &mut pair.i } else { &mut pair.r };
        hs_write(w, &payload, 65535 + 16).map_err(|x| Fail::setup(format!("{name}: write {}: {}", c.idx, e(&x))))?
    };
    let parallel = |same_statics: bool| -> Result<Vec<u8>, Fail> {
        let mut other = spec.clone();
        if same_statics {
            // same static keys, psks and prologue; fresh ephemerals
            other.eph = EphMode::Fixed;
            let mut p = drive_with_ephemerals(&other, c.idx, mix(spec.key_seed, 0xE0E0), c.plen)?;
            let w = if i_sends { &mut p.i } else { &mut p.r };
            hs_write(w, &payload, 65535 + 16).map_err(|x| Fail::setup(format!("parallel write: {}", e(&x))))
        } else {
            other.key_seed = mix(spec.key_seed, 0xA1A1);
            let mut p = drive_to(&other, c.idx)?;
            let w = if i_sends { &mut p.i } else { &mut p.r };
            hs_write(w, &other.payload(c.idx, c.plen), 65535 + 16).map_err(|x| Fail::setup(format!("parallel write: {}", e(&x))))
        }
    };
    let altered: Vec<u8> = match &c.alt {
        Alt::Flip(p, b) => {
            let mut m = genuine.clone();
            let p = *p % m.len();
            m[p] ^= 1 << (b % 8);
            m
        },
        Alt::Set(p, v) => {
            let mut m = genuine.clone();
            let p = *p % m.len();
            m[p] = *v;
            m
        },
        Alt::Trunc(l) => genuine[..(*l).min(genuine.len())].to_vec(),
        Alt::Extend(n) => {
            let mut m = genuine.clone();
            m.extend(expand(spec.key_seed, 321, *n));
            m
        },
        Alt::Multi(seed, count) => {
            let mut m = genuine.clone();
            for k in 0..*count as u64 {
                let p = (mix(*seed, k) % m.len() as u64) as usize;
                m[p] ^= (mix(*seed, 1000 + k) % 255 + 1) as u8;
            }
            m
        },
        Alt::Earlier(j) => earlier.get(*j).cloned().unwrap_or_else(|| genuine.clone()),
        Alt::RelatedEphemeral => {
            let mut m = genuine.clone();
            if let Some(f) = lay[c.idx].fields.iter().find(|f| f.kind == FieldKind::E) {
                if spec.suite.dh == DhKind::P256 {
                    // p = 2^256 - 2^224 + 2^192 + 2^96 - 1 (big endian)
                    let p: [u8; 32] = [
                        0xff, 0xff, 0xff, 0xff, 0x00, 0x00, 0x00, 0x01, 0, 0, 0, 0, 0, 0, 0, 0, 0, 0, 0, 0, 0xff, 0xff, 0xff, 0xff, 0xff, 0xff, 0xff, 0xff, 0xff, 0xff,
                        0xff, 0xff,
                    ];
                    let y = &mut m[f.off + 33..f.off + 65];
                    let mut borrow = 0i32;
                    for i in (0..32).rev() {
                        let d = p[i] as i32 - y[i] as i32 - borrow;
                        if d < 0 {
                            y[i] = (d + 256) as u8;
                            borrow = 1;
                        } else {
                            y[i] = d as u8;
                            borrow = 0;
                        }
                    }
                } else {
                    m[f.off + 31] ^= 0x80;
                }
            }
            m
        },
        Alt::ParallelOtherKeys => parallel(false)?,
        Alt::ParallelSameStatics => parallel(true)?,
        Alt::Mask { trunc, mask } => {
            let mut m = genuine.clone();
            if *trunc > 0 && !m.is_empty() {
                let t = *trunc as usize % m.len();
                m.truncate(m.len() - t);
            }
            for (i, b) in mask.iter().enumerate() {
                if i < m.len() {
                    m[i] ^= *b;
                } else if m.len() < 66_000 {
                    m.push(*b);
                }
            }
            m
        },
        Alt::SwapBlocks(a, b) => {
            let mut m = genuine.clone();
            let nb = m.len() / 16;
            if nb >= 2 {
                let (a, b) = (*a as usize % nb, *b as usize % nb);
                for k in 0..16 {
                    m.swap(a * 16 + k, b * 16 + k);
                }
            }
            m
        },
    };
    if altered == genuine {
        acc.skip("alteration left the message unchanged");
        return Ok(());
    }
    // which fields were touched?
    let l = &lay[c.idx];
    let changed: Vec<usize> = (0..altered.len().max(genuine.len())).filter(|i| altered.get(*i) != genuine.get(*i)).collect();
    let payload_start = l.overhead - if l.payload_encrypted { 16 } else { 0 };
    let mut touches_encrypted = false;
    for &p in &changed {
        for f in &l.fields {
            if f.encrypted && p >= f.off && p < f.off + f.len {
                touches_encrypted = true;
            }
        }
        if l.payload_encrypted && p >= payload_start {
            touches_encrypted = true;
        }
    }
    let structural = matches!(c.alt, Alt::Earlier(_) | Alt::ParallelOtherKeys | Alt::ParallelSameStatics);
    if c.alt == Alt::RelatedEphemeral {
        acc.label(format!("related_ephemeral:{}", spec.suite.dh.name()));
    }
    // deliver
    // the receiver's payload buffer: ample, or exactly the honest payload length (empty for an
    // empty payload) - implementations choose decrypt paths by the room they are given
    // ... or exactly the HONEST payload length even when the altered message is longer (a
    // receiver that knows what it expects): the message must still be judged as a whole
    let tight = spec.key_seed % 3 == 0;
    let honest_size = spec.key_seed % 3 == 1 && (c.plen + l.overhead == genuine.len());
    // ... or no room at all (`&mut []`, what a caller that expects no payload passes): an error is
    // always acceptable, a successful read of an altered message is judged as everywhere else
    let empty = spec.key_seed % 3 == 2 && spec.key_seed % 2 == 0;
    let mut buf = vec![0u8; if empty { 0 } else if tight { (altered.len().max(genuine.len())).saturating_sub(l.overhead).max(c.plen) } else if honest_size { c.plen } else { 65535 + 64 }];
    if empty {
        acc.label("read_buffer:empty");
    }
    if tight {
        acc.label("read_buffer:tight");
    }
    if honest_size {
        acc.label("read_buffer:honest_payload_size");
    }
    let res = {
        let r = if i_sends { &mut pair.r } else { &mut pair.i };
        let first = r.read_message(&altered, &mut buf);
        if first.is_err() && c.plen % 2 == 1 {
            // a rejected altered message presented a second time must be rejected again
            let second = r.read_message(&altered, &mut buf);
            ensure!(second.is_err(), "{name}: message {} altered by {:?}: rejected at first, ACCEPTED when delivered again", c.idx, c.alt);
        }
        first
    };
    if touches_encrypted && !structural {
        ensure!(
            res.is_err(),
            "{name}: message {} altered by {:?} inside an encrypted field (changed byte offsets {:?}..) was ACCEPTED by the receiving read (returned {res:?})",
            c.idx,
            c.alt,
            &changed[..changed.len().min(4)]
        );
        acc.label("touches_encrypted_field:read_rejects");
    }
    let mut all_ok = res.is_ok();
    if all_ok {
        // continue honestly
        for k in c.idx + 1..nm {
            let (w, r) = if k % 2 == 0 { (&mut pair.i, &mut pair.r) } else { (&mut pair.r, &mut pair.i) };
            let m = match hs_write(w, &spec.payload(k, other_plen(c.plen)), 65535 + 16) {
                Ok(m) => m,
                Err(_) => {
                    all_ok = false;
                    break;
                },
            };
            if hs_read(r, &m, 65535).is_err() {
                all_ok = false;
                break;
            }
        }
    }
    if all_ok && pair.i.is_handshake_finished() && pair.r.is_handshake_finished() {
        fail!(
            "{name}: message {} was altered in transit by {:?} (first changed offset {:?}) yet every call succeeded and both parties finished the handshake",
            c.idx,
            c.alt,
            changed.first()
        );
    }
    acc.label(format!("alt:{}", format!("{:?}", c.alt).split('(').next().unwrap()));
    acc.label(if res.is_err() { "detected_by:receiving_read" } else { "detected_by:later_step" });
    if let Alt::Flip(p, b) = &c.alt {
        let p = *p % genuine.len();
        if spec.suite.dh == DhKind::X25519 && *b % 8 == 7 && l.fields.iter().any(|f| f.kind == FieldKind::E && p == f.off + 31) {
            acc.label("x25519_high_bit_of_ephemeral");
        }
    }
    acc.nontrivial(&(name, spec.suite, c.idx, c.alt.clone(), c.plen));
    Ok(())
}

/// Like drive_to, but with ephemerals derived from `eseed` (same statics/psks/prologue).
/// payload length of the messages other than the altered one (large payloads only there)
fn other_plen(plen: usize) -> usize {
    if plen > 400 {
        7
    } else {
        plen
    }
}

fn drive_with_ephemerals(spec: &SessionSpec, idx: usize, eseed: u64, plen: usize) -> Result<Pair, Fail> {
    use crate::instr::SharedRng;
    let p256 = spec.suite.dh == DhKind::P256;
    let mut s2 = spec.clone();
    s2.eph = EphMode::Rng;
    let rng_i = SharedRng::seeded(eseed, p256);
    let rng_r = SharedRng::seeded(eseed ^ 1, p256);
    let i = build_snow(&s2, true, &EpOverrides::default(), &Instr { rng: Some(rng_i.clone()), log: None }).map_err(|x| Fail::setup(e(&x)))?;
    let r = build_snow(&s2, false, &EpOverrides::default(), &Instr { rng: Some(rng_r.clone()), log: None }).map_err(|x| Fail::setup(e(&x)))?;
    let mut pair = Pair { i, r, rng_i, rng_r };
    for k in 0..idx {
        let (w, r) = if k % 2 == 0 { (&mut pair.i, &mut pair.r) } else { (&mut pair.r, &mut pair.i) };
        let m = hs_write(w, &spec.payload(k, other_plen(plen)), 65535 + 16).map_err(|x| Fail::setup(format!("parallel prefix write {k}: {}", e(&x))))?;
        hs_read(r, &m, 65535).map_err(|x| Fail::setup(format!("parallel prefix read {k}: {}", e(&x))))?;
    }
    Ok(pair)
}

fn alterations(spec: &SessionSpec, idx: usize, plen: usize, all_bits: bool, all_truncs: bool, seed: u64) -> Vec<Alt> {
    let l = &spec.layouts()[idx];
    let total = l.overhead + plen;
    let mut out = Vec::new();
    if all_bits {
        for p in 0..total {
            for b in 0..8 {
                out.push(Alt::Flip(p, b));
            }
        }
    } else {
        let mut pos: Vec<(usize, u8)> = Vec::new();
        for b in boundaries(l, plen) {
            if b < total {
                pos.push((b, 0));
                pos.push((b, 7));
            }
            if b > 0 {
                pos.push((b - 1, 7));
                pos.push((b - 1, 0));
            }
        }
        for f in &l.fields {
            if f.kind == FieldKind::E {
                pos.push((f.off + 31, 7));
            }
        }
        for k in 0..8u64 {
            pos.push(((mix(seed, k) % total as u64) as usize, (mix(seed, 50 + k) % 8) as u8));
        }
        pos.sort();
        pos.dedup();
        for (p, b) in pos {
            out.push(Alt::Flip(p, b));
        }
    }
    if all_truncs {
        for t in 0..total {
            out.push(Alt::Trunc(t));
        }
    } else {
        let mut ts: Vec<usize> = Vec::new();
        for b in boundaries(l, plen) {
            ts.extend([b.saturating_sub(1), b, b + 1]);
        }
        for k in 0..6u64 {
            ts.push((mix(seed, 100 + k) % total as u64) as usize);
        }
        ts.sort();
        ts.dedup();
        for t in ts {
            if t < total {
                out.push(Alt::Trunc(t));
            }
        }
    }
    for n in [1usize, 15, 16, 17, 32, 48, 64, 128] {
        out.push(Alt::Extend(n));
    }
    for k in 0..3u64 {
        out.push(Alt::SwapBlocks((mix(seed, 400 + k) % 64) as u16, (mix(seed, 410 + k) % 64) as u16));
    }
    for k in 0..4u64 {
        out.push(Alt::Set((mix(seed, 200 + k) % total as u64) as usize, (mix(seed, 210 + k) & 0xff) as u8));
        out.push(Alt::Multi(mix(seed, 300 + k), (2 + k * 3) as u8));
    }
    for j in 0..idx {
        out.push(Alt::Earlier(j));
    }
    out.push(Alt::ParallelOtherKeys);
    if l.has_e {
        out.push(Alt::RelatedEphemeral);
    }
    if !spec.pattern().is_oneway() {
        out.push(Alt::ParallelSameStatics);
    }
    out
}

pub fn run(ctx: &Ctx) {
    let suites = all_suites();
    let thorough = ctx.tier == Tier::Thorough;
    let names = some_hs_names(if thorough { 5 } else { 2 });
    let mut cases = Vec::new();
    for (ni, hs) in names.iter().enumerate() {
        // one 25519 and one P-256 suite per handshake string
        for half in 0..2 {
            let suite = suites[half * 12 + (ni * 7 + 2) % 12];
            let mut spec = SessionSpec::simple(hs.clone(), suite, mix(ctx.seed, (ni * 2 + half) as u64));
            if ring_covers(suite) {
                spec.backend_i = crate::instr::BACKENDS[ni % 3];
                spec.backend_r = crate::instr::BACKENDS[(ni + 1) % 3];
            }
            for idx in 0..spec.n_msgs() {
                for plen in [0usize, 9, 100] {
                    if ((half == 1 && plen == 9) || (plen == 100 && (ni + idx) % 3 != 0)) && !thorough {
                        continue;
                    }
                    for a in alterations(&spec, idx, plen, false, false, mix(ctx.seed, (ni * 10 + idx) as u64)) {
                        cases.push(Case { spec: spec.clone(), idx, alt: a, plen });
                    }
                }
            }
        }
    }
    ctx.note(format!("{} handshake strings, {} boundary/substitution alterations", names.len(), cases.len()));
    ctx.run_list("boundary_alterations", &cases, false, oracle);

    // large handshake payloads (implementations pick decrypt paths by size): every base pattern,
    // a 25519 and a P-256 suite, every message, payload lengths around 4 KiB / 9000 / 12 KiB /
    // 16 KiB / 32 KiB and the per-message maximum, with the boundary alteration set
    {
        const LADDER: [usize; 14] = [1000, 4079, 4080, 4081, 4096, 4097, 5000, 9000, 12272, 12289, 16384, 32768, 65000, usize::MAX];
        let mut big = Vec::new();
        for (ni, hs) in some_hs_names(if thorough { 1 } else { 0 }).iter().enumerate() {
            for half in 0..2 {
                let suite = suites[half * 12 + (ni * 5 + 1) % 12];
                let mut spec = SessionSpec::simple(hs.clone(), suite, mix(ctx.seed, 9000 + (ni * 2 + half) as u64));
                if ring_covers(suite) {
                    spec.backend_i = crate::instr::BACKENDS[(ni + 1) % 3];
                    spec.backend_r = crate::instr::BACKENDS[ni % 3];
                }
                for idx in 0..spec.n_msgs() {
                    let max = 65535 - spec.layouts()[idx].overhead;
                    for k in 0..ctx.tier.pick(3usize, 14) {
                        let plen = LADDER[(ni * 3 + idx * 5 + half * 7 + k * 5) % 14].min(max);
                        for a in alterations(&spec, idx, plen, false, false, mix(ctx.seed, (ni * 10 + idx + k * 1000) as u64)) {
                            if matches!(a, Alt::Earlier(_)) {
                                continue;
                            }
                            big.push(Case { spec: spec.clone(), idx, alt: a, plen });
                        }
                    }
                }
            }
        }
        ctx.run_list("large_payload_alterations", &big, false, oracle);
    }

    // exhaustive: all single-bit flips and all truncation lengths of every message
    let mut ex = Vec::new();
    let base = some_hs_names(0);
    let ciphers: Vec<CipherKind> = if thorough { crate::refcrypto::CIPHERS.to_vec() } else { vec![CipherKind::ChaChaPoly] };
    for (ni, hs) in base.iter().enumerate() {
        for (ci, cipher) in ciphers.iter().enumerate() {
            let suite = *suites.iter().filter(|s| s.cipher == *cipher && s.dh == DhKind::X25519).nth((ni + ci) % 4).unwrap();
            let mut spec = SessionSpec::simple(hs.clone(), suite, mix(ctx.seed, 700 + ni as u64));
            if ring_covers(suite) && ni % 2 == 0 {
                spec.backend_i = crate::instr::Backend::RingFirst;
                spec.backend_r = crate::instr::Backend::RingFirst;
            }
            for idx in 0..spec.n_msgs() {
                let l = &spec.layouts()[idx];
                let total = l.overhead + 3;
                for p in 0..total {
                    for b in 0..8u8 {
                        ex.push(Case { spec: spec.clone(), idx, alt: Alt::Flip(p, b), plen: 3 });
                    }
                }
                for t in 0..total {
                    ex.push(Case { spec: spec.clone(), idx, alt: Alt::Trunc(t), plen: 3 });
                }
            }
        }
    }
    ctx.note(format!("exhaustive sub-space: all single-bit flips and all truncation lengths of every message: {} alterations", ex.len()));
    ctx.run_list("all_bits_all_truncations", &ex, true, oracle);

    let all = std::sync::Arc::new(all_hs_names());
    let seed = ctx.seed;
    ctx.run_prop(
        "random_edits",
        ctx.tier.pick(6000, 100_000),
        || {
            let all = all.clone();
            (any::<u16>(), 0usize..24, any::<u64>(), any::<u16>(), prop_oneof![8 => 0usize..40, 2 => 40usize..400, 1 => 400usize..70000], any::<u64>(), 1u8..12, 0u8..7).prop_map(move |(ni, si, ks, mi, plen, es, cnt, kind)| {
                let suites = all_suites();
                let mut spec = SessionSpec::simple(all[pick(ni, all.len())].clone(), suites[si], mix(seed, ks));
                if ring_covers(suites[si]) && ks % 2 == 1 {
                    spec.backend_i = crate::instr::Backend::RingFirst;
                    spec.backend_r = crate::instr::Backend::RingFirst;
                }
                let idx = pick(mi, spec.n_msgs());
                let plen = plen.min(65535 - spec.layouts()[idx].overhead);
                let total = spec.layouts()[idx].overhead + plen;
                let alt = match kind {
                    0 => Alt::Flip((es % total as u64) as usize, (es >> 32) as u8 % 8),
                    1 => Alt::Set((es % total as u64) as usize, (es >> 40) as u8),
                    2 => Alt::Trunc((es % total as u64) as usize),
                    3 => Alt::Extend(1 + (es % 200) as usize),
                    6 => Alt::SwapBlocks((es >> 8) as u16, (es >> 24) as u16),
                    _ => Alt::Multi(es, cnt),
                };
                Case { spec, idx, alt, plen }
            })
        },
        oracle,
    );
}

/// libFuzzer entry: bytes -> (handshake string, suite, message index, payload length, cut,
/// XOR mask). An all-zero mask without a cut is the genuine message (discarded by the oracle).
pub fn fuzz_case(data: &[u8]) -> Option<Case> {
    if data.len() < 6 {
        return None;
    }
    let names = some_hs_names(1);
    let suites = all_suites();
    let hs = names[data[0] as usize % names.len()].clone();
    let suite = suites[data[1] as usize % suites.len()];
    let mut spec = SessionSpec::simple(hs, suite, 0xF0_0000 + ((data[0] as u64) << 8) + data[1] as u64);
    if ring_covers(suite) {
        spec.backend_i = crate::instr::BACKENDS[(data[2] >> 4) as usize % 3];
        spec.backend_r = crate::instr::BACKENDS[(data[2] >> 6) as usize % 3];
    }
    let idx = (data[2] & 0x0f) as usize % spec.n_msgs();
    let plen = [0usize, 3, 16, 40, 300, 5000][data[3] as usize % 6];
    let trunc = u16::from_le_bytes([data[4], data[5]]);
    Some(Case { spec, idx, alt: Alt::Mask { trunc, mask: data[6..].to_vec() }, plen })
}

/// Err(message) only for a violation of the property (set-up problems are not the fuzzer's).
pub fn fuzz_judge(data: &[u8]) -> Result<(), String> {
    let Some(c) = fuzz_case(data) else { return Ok(()) };
    let mut acc = Acc::default();
    match oracle(&c, &mut acc) {
        Err(f) if !f.setup => Err(format!("{}\ncase: {:?}", f.msg, c)),
        _ => Ok(()),
    }
}

pub fn replay(ctx: &Ctx, sub: &str, case: &serde_json::Value, origin: &str) -> bool {
    if sub == "fuzz_bytes" {
        let bytes: Vec<u8> = serde_json::from_value(case.clone()).unwrap_or_default();
        return match fuzz_case(&bytes) {
            Some(c) => ctx.replay_case::<Case, _>("random_edits", &serde_json::to_value(c).unwrap(), oracle, origin),
            None => true,
        };
    }
    ctx.replay_case::<Case, _>(sub, case, oracle, origin)
}
