//! C04 Transport messages are authenticated: only the peer's message is accepted.

use super::c10::drive_to;
use super::common::*;
use super::PropDef;
use crate::engine::{expand, mix, pick, Acc, CaseResult, Ctx, Fail, Tier};
use crate::instr::Backend;
use crate::sess::*;
use proptest::prelude::*;
use serde::{Deserialize, Serialize};

pub const DEF: PropDef = PropDef {
    id: "C04",
    run,
    replay,
    level: "fault_enumeration",
    rule: "fault enumeration on transport messages: (pattern class interactive/one-way, cipher, hash, DH, backend default / ring-first, direction, payload length 0, 1, 33, 65519 and one entry per configuration of a ladder 2..17, 100, 1000, 4080, 4096, 9000, 12288, 16384, 32768, 65503, 65518, number of genuine messages already exchanged, and a session history with no rekey / a synchronised manual rekey of one direction only / manual then automatic) x forgery: single-bit flips (boundary + random; ALL bits in thorough), every truncation incl. < 16 bytes, extensions, reflection to the sender, same-index message of a second session with other keys, a later message delivered early, a replay of an accepted message, the genuine message after the receiver was repositioned (set_receiving_nonce) to another message number - 1 or 2 back, +1, +2^32, ^2^40, ^2^56, ^2^63, the byte-swapped / half-swapped / bit-reversed number -, random and all-zero byte strings of 16 / 17 / message length; stateless mode: a genuine message for nonce n presented under n' != n with n' = n ^ (1<<b) for all 64 b, boundary values and random 64-bit values. Oracle: the forged delivery returns Err, and afterwards the genuine message for this session, direction and nonce is accepted and returns exactly the written payload. Non-trivial = a forged/misdirected delivery against a session that accepts the genuine message; distinct by (config, forgery)",
    technique: "fault enumeration with accept-iff-genuine oracle over both cipher backends; proptest for random forgeries and nonce pairs (+ libFuzzer target tr_forge in the thorough tier: coverage-guided XOR masks / cuts / extensions over the genuine transport message, judged by the same oracle)",
    assumptions: &["cryptographic strength is not tested: forgeries are alterations of genuine traffic, not attempts to find tag collisions"],
    panic_is_violation: false,
    needs_refnoise: false,
};

#[derive(Clone, Debug, Serialize, Deserialize, PartialEq, Eq, Hash)]
pub enum Forgery {
    Flip(usize, u8),
    Trunc(usize),
    Extend(usize),
    Reflect,
    OtherSession,
    /// the message after the expected one delivered first
    Early,
    /// the previous (already accepted) message delivered again
    Replay,
    /// stateless: present under a different nonce
    Nonce(u64, u64),
    Garbage(usize),
    /// an all-zero message of this length
    Zeros(usize),
    /// stateful: the receiver is repositioned with set_receiving_nonce(n') to another message
    /// number (n' = n - d for d = 1..=prior, or n + 2^32 / n ^ 2^k) and then given the genuine
    /// message written for n: it was not written for n', so it must be refused
    Reposition(u8),
    /// byte-level forgery from the fuzzer: the genuine message cut by `trunc` bytes (modulo its
    /// length), XORed with `mask`; mask bytes beyond the message are appended
    Mask { trunc: u16, mask: Vec<u8> },
    /// same-index message of a parallel session with the SAME static keys / psks but fresh ephemerals
    OtherSessionSameStatics,
}

#[derive(Clone, Debug, Serialize, Deserialize)]
pub struct Case {
    pub spec: SessionSpec,
    pub r_to_i: bool,
    pub plen: usize,
    /// genuine messages exchanged in this direction before the attack
    pub prior: usize,
    pub forgery: Forgery,
    pub stateless: bool,
    /// output buffer offered for the forged delivery: 0 ample, 1 exactly message length - 16
    /// (empty for a 16-byte message), 2 message length, 3 one byte more than the payload
    #[serde(default)]
    pub fbuf: u8,
    /// both counters of the direction are first moved to this value (stateful: hook + setter), so
    /// that the attack happens at a large message number
    #[serde(default)]
    pub jump: u64,
    /// deliver the forged message this many extra times before the genuine one
    #[serde(default)]
    pub again: u8,
}

fn other_session(spec: &SessionSpec, same_statics: bool) -> Result<Pair, Fail> {
    if same_statics {
        // same key seed (statics, psks, prologue), ephemerals from a different RNG stream
        let mut s2 = spec.clone();
        s2.eph = EphMode::Rng;
        let p256 = spec.suite.dh == crate::refcrypto::DhKind::P256;
        let rng_i = crate::instr::SharedRng::seeded(mix(spec.key_seed, 0xE1), p256);
        let rng_r = crate::instr::SharedRng::seeded(mix(spec.key_seed, 0xE2), p256);
        let mut i = build_snow(&s2, true, &EpOverrides::default(), &Instr { rng: Some(rng_i.clone()), log: None }).map_err(|x| Fail::setup(e(&x)))?;
        let mut r = build_snow(&s2, false, &EpOverrides::default(), &Instr { rng: Some(rng_r.clone()), log: None }).map_err(|x| Fail::setup(e(&x)))?;
        for k in 0..spec.n_msgs() {
            let (w, rd) = if k % 2 == 0 { (&mut i, &mut r) } else { (&mut r, &mut i) };
            let m = hs_write(w, b"", 65535).map_err(|x| Fail::setup(e(&x)))?;
            hs_read(rd, &m, 65535).map_err(|x| Fail::setup(e(&x)))?;
        }
        Ok(Pair { i, r, rng_i, rng_r })
    } else {
        let mut other = spec.clone();
        other.key_seed = mix(spec.key_seed, 0xB2B2);
        drive_to(&other, other.n_msgs())
    }
}

fn forged_buf(kind: u8, msg_len: usize) -> Vec<u8> {
    let n = match kind % 6 {
        0 => 70000,
        1 => msg_len.saturating_sub(16),
        2 => msg_len,
        3 => msg_len.saturating_sub(15),
        // too small for the payload (the delivery must be rejected and change nothing)
        4 => msg_len.saturating_sub(17),
        _ => 0,
    };
    vec![0u8; n]
}

fn apply_mask(genuine: &[u8], trunc: u16, mask: &[u8]) -> Vec<u8> {
    let mut m = genuine.to_vec();
    if trunc > 0 && !m.is_empty() {
        let t = trunc as usize % m.len();
        m.truncate(m.len() - t);
    }
    for (i, b) in mask.iter().enumerate() {
        if i < m.len() {
            m[i] ^= *b;
        } else if m.len() < 66_000 {
            m.push(*b);
        }
    }
    m
}

/// libFuzzer entry: bytes -> (configuration, direction, mode, payload length, prior messages,
/// output buffer class, counter jump, cut, XOR mask over the genuine transport message).
pub fn fuzz_case(data: &[u8]) -> Option<Case> {
    if data.len() < 8 {
        return None;
    }
    let cfgs = configs(0xF4, false);
    let spec = cfgs[data[0] as usize % cfgs.len()].clone();
    let plen = [0usize, 1, 5, 16, 33, 300, 4096][data[1] as usize % 7];
    let jump = [0u64, 0, 254, 65534, (1 << 32) - 2, (1 << 56) + 1, (1 << 63) + 5][data[3] as usize % 7];
    let trunc = u16::from_le_bytes([data[6], data[7]]);
    Some(Case {
        spec,
        r_to_i: data[2] & 1 == 1,
        plen,
        prior: (data[2] >> 1) as usize % 3,
        forgery: Forgery::Mask { trunc, mask: data[8..].to_vec() },
        stateless: data[2] & 8 != 0,
        fbuf: data[4],
        jump,
        again: data[5] % 3,
    })
}

/// Err(message) only for a violation of the property.
pub fn fuzz_judge(data: &[u8]) -> Result<(), String> {
    let Some(c) = fuzz_case(data) else { return Ok(()) };
    let mut acc = Acc::default();
    match oracle(&c, &mut acc) {
        Err(f) if !f.setup => Err(format!("{}\ncase: {:?}", f.msg, c)),
        _ => Ok(()),
    }
}

fn oracle(c: &Case, acc: &mut Acc) -> CaseResult {
    let spec = &c.spec;
    let name = spec.name_string();
    let oneway = spec.pattern().is_oneway();
    if oneway && c.r_to_i {
        acc.skip("one-way pattern has no responder-to-initiator direction");
        return Ok(());
    }
    let pair = drive_to(spec, spec.n_msgs())?;
    // the session's history before the attack: nothing, or a synchronised manual rekey of ONE
    // direction on both peers (the other direction must keep its own key), or manual then automatic
    let pre_rekey = (c.jump / 7 + c.prior as u64 + c.plen as u64 + c.fbuf as u64) % 6;
    let rk = crate::engine::expand32(spec.key_seed, 4040);
    if (1..=3).contains(&pre_rekey) {
        acc.label(format!("history:manual_rekey_{pre_rekey}"));
    }
    let payload = expand(spec.key_seed, 21, c.plen);
    let what = format!("{name} [{:?}/{:?}] {} stateless={} payload {} prior {} forgery {:?} fbuf {} jump {} again {}", spec.backend_i, spec.backend_r, if c.r_to_i { "r->i" } else { "i->r" }, c.stateless, c.plen, c.prior, c.forgery, c.fbuf % 6, c.jump, c.again);
    if c.stateless {
        let mut ti = pair.i.into_stateless_transport_mode().map_err(|x| Fail::setup(e(&x)))?;
        let mut tr = pair.r.into_stateless_transport_mode().map_err(|x| Fail::setup(e(&x)))?;
        match pre_rekey {
            1 => {
                ti.rekey_manually(Some(&rk), None);
                tr.rekey_manually(Some(&rk), None);
            },
            2 => {
                ti.rekey_manually(None, Some(&rk));
                tr.rekey_manually(None, Some(&rk));
            },
            3 => {
                ti.rekey_initiator_manually(&rk);
                tr.rekey_initiator_manually(&rk);
                ti.rekey_outgoing();
                tr.rekey_incoming();
            },
            _ => {},
        }
        let (w, r) = if c.r_to_i { (&tr, &ti) } else { (&ti, &tr) };
        let (n, forged, n2): (u64, Vec<u8>, u64) = match &c.forgery {
            Forgery::Nonce(n, n2) => {
                let m = sl_write(w, *n, &payload, c.plen + 16).map_err(|x| Fail::setup(format!("{what}: write: {}", e(&x))))?;
                (*n, m, *n2)
            },
            f => {
                let n = c.jump.wrapping_add(c.prior as u64) % (u64::MAX - 1);
                let m = sl_write(w, n, &payload, c.plen + 16).map_err(|x| Fail::setup(format!("{what}: write: {}", e(&x))))?;
                let forged = match f {
                    Forgery::Flip(p, b) => {
                        let mut x = m.clone();
                        let p = *p % x.len();
                        x[p] ^= 1 << (b % 8);
                        x
                    },
                    Forgery::Trunc(l) => m[..(*l).min(m.len() - 1)].to_vec(),
                    Forgery::Extend(k) => {
                        let mut x = m.clone();
                        x.extend(expand(spec.key_seed, 22, *k));
                        x
                    },
                    Forgery::Garbage(l) => expand(spec.key_seed, 23, *l),
                    Forgery::Zeros(l) => vec![0u8; *l],
                    Forgery::Mask { trunc, mask } => apply_mask(&m, *trunc, mask),
                    Forgery::OtherSession | Forgery::OtherSessionSameStatics => {
                        let p2 = other_session(spec, *f == Forgery::OtherSessionSameStatics)?;
                        let t2 = if c.r_to_i { p2.r } else { p2.i }.into_stateless_transport_mode().map_err(|x| Fail::setup(e(&x)))?;
                        sl_write(&t2, n, &payload, c.plen + 16).map_err(|x| Fail::setup(e(&x)))?
                    },
                    Forgery::Reflect => {
                        // delivered back to its own sender
                        let mut buf = vec![0u8; 70000];
                        let res = w.read_message(n, &m, &mut buf);
                        ensure!(res.is_err(), "{what}: a message reflected to its own sender was accepted: {res:?}");
                        acc.label("forgery:Reflect");
                        acc.nontrivial(&what);
                        return Ok(());
                    },
                    _ => {
                        acc.skip("forgery kind not applicable to stateless mode");
                        return Ok(());
                    },
                };
                (n, forged, n)
            },
        };
        let genuine = sl_write(w, n, &payload, c.plen + 16).map_err(|x| Fail::setup(e(&x)))?;
        if forged == genuine && n2 == n {
            acc.skip("forgery equals the genuine message");
            return Ok(());
        }
        for rep in 0..1 + c.again % 3 {
            let mut buf = forged_buf(c.fbuf.wrapping_add(rep), forged.len());
            let res = r.read_message(n2, &forged, &mut buf);
            ensure!(res.is_err(), "{what}: forged/misdirected delivery {} (nonce {n2} for a message written under {n}, output buffer {} bytes) was ACCEPTED: {res:?}", rep + 1, buf.len());
        }
        let got = sl_read(r, n, &genuine, c.plen).map_err(|x| Fail::new(format!("{what}: the genuine message is rejected: {}", e(&x))))?;
        ensure!(got == payload, "{what}: genuine message returned a different payload");
    } else {
        let mut ti = pair.i.into_transport_mode().map_err(|x| Fail::setup(e(&x)))?;
        let mut tr = pair.r.into_transport_mode().map_err(|x| Fail::setup(e(&x)))?;
        match pre_rekey {
            1 => {
                ti.rekey_manually(Some(&rk), None);
                tr.rekey_manually(Some(&rk), None);
            },
            2 => {
                ti.rekey_manually(None, Some(&rk));
                tr.rekey_manually(None, Some(&rk));
            },
            3 => {
                ti.rekey_initiator_manually(&rk);
                tr.rekey_initiator_manually(&rk);
                ti.rekey_outgoing();
                tr.rekey_incoming();
            },
            _ => {},
        }
        let (w, r) = if c.r_to_i { (&mut tr, &mut ti) } else { (&mut ti, &mut tr) };
        if c.jump != 0 {
            let j = c.jump % (u64::MAX - 10);
            w.verif_set_sending_nonce(j);
            r.set_receiving_nonce(j);
        }
        let mut last = Vec::new();
        for k in 0..c.prior {
            let p = expand(spec.key_seed, 30 + k as u64, 3 + k);
            let m = t_write(w, &p, p.len() + 16).map_err(|x| Fail::setup(e(&x)))?;
            let g = t_read(r, &m, p.len()).map_err(|x| Fail::setup(format!("{what}: prior message {k}: {}", e(&x))))?;
            ensure!(g == p, "{what}: prior payload");
            last = m;
        }
        let genuine = t_write(w, &payload, c.plen + 16).map_err(|x| Fail::setup(format!("{what}: write: {}", e(&x))))?;
        let forged: Vec<u8> = match &c.forgery {
            Forgery::Flip(p, b) => {
                let mut x = genuine.clone();
                let p = *p % x.len();
                x[p] ^= 1 << (b % 8);
                x
            },
            Forgery::Trunc(l) => genuine[..(*l).min(genuine.len() - 1)].to_vec(),
            Forgery::Extend(k) => {
                let mut x = genuine.clone();
                x.extend(expand(spec.key_seed, 22, *k));
                x
            },
            Forgery::Garbage(l) => expand(spec.key_seed, 23, *l),
            Forgery::Zeros(l) => vec![0u8; *l],
            Forgery::Mask { trunc, mask } => apply_mask(&genuine, *trunc, mask),
            Forgery::OtherSession | Forgery::OtherSessionSameStatics => {
                let p2 = other_session(spec, c.forgery == Forgery::OtherSessionSameStatics)?;
                let mut t2 = if c.r_to_i { p2.r } else { p2.i }.into_transport_mode().map_err(|x| Fail::setup(e(&x)))?;
                t2.verif_set_sending_nonce((c.jump % (u64::MAX - 10)).wrapping_add(c.prior as u64));
                t_write(&mut t2, &payload, c.plen + 16).map_err(|x| Fail::setup(e(&x)))?
            },
            Forgery::Early => t_write(w, &payload, c.plen + 16).map_err(|x| Fail::setup(e(&x)))?,
            Forgery::Replay => {
                if c.prior == 0 {
                    acc.skip("no earlier message to replay");
                    return Ok(());
                }
                last.clone()
            },
            Forgery::Reflect => {
                let mut buf = vec![0u8; 70000];
                let res = w.read_message(&genuine, &mut buf);
                ensure!(res.is_err(), "{what}: a message reflected to its own sender was accepted: {res:?}");
                genuine.clone()
            },
            Forgery::Nonce(..) => {
                acc.skip("nonce substitution applies to stateless mode");
                return Ok(());
            },
            Forgery::Reposition(k) => {
                let n = r.receiving_nonce();
                let n2 = match *k % 12 {
                    0 if n >= 1 => n - 1,
                    1 if n >= 2 => n - 2,
                    2 => n.wrapping_add(1 << 32),
                    3 => n ^ (1 << 56),
                    4 => n ^ (1 << 63),
                    5 => n.wrapping_add(1),
                    6 => n ^ (1 << 40),
                    // other encodings of the same number: byte order, halves, bit order
                    7 => n.swap_bytes(),
                    8 => n.rotate_left(32),
                    9 => n.reverse_bits(),
                    10 => (n as u32).swap_bytes() as u64,
                    _ => 0,
                };
                if n2 == n || n2 == u64::MAX {
                    acc.skip("repositioning not applicable");
                    return Ok(());
                }
                for rep in 0..1 + c.again % 3 {
                    r.set_receiving_nonce(n2);
                    let mut buf = forged_buf(c.fbuf.wrapping_add(rep), genuine.len());
                    let res = r.read_message(&genuine, &mut buf);
                    ensure!(res.is_err(), "{what}: the receiver was repositioned to message number {n2} and then ACCEPTED the message written for number {n}: {res:?}");
                }
                // back where the genuine message belongs
                r.set_receiving_nonce(n);
                genuine.clone()
            },
        };
        if forged != genuine {
            for rep in 0..1 + c.again % 3 {
                let mut buf = forged_buf(c.fbuf.wrapping_add(rep), forged.len());
                let res = r.read_message(&forged, &mut buf);
                ensure!(res.is_err(), "{what}: forged delivery {} (output buffer {} bytes) was ACCEPTED: {res:?}", rep + 1, buf.len());
            }
        }
        let got = t_read(r, &genuine, c.plen).map_err(|x| Fail::new(format!("{what}: the genuine message is rejected (after the forged delivery): {}", e(&x))))?;
        ensure!(got == payload, "{what}: genuine message returned a different payload");
    }
    acc.label(format!("forgery:{}", format!("{:?}", c.forgery).split('(').next().unwrap()));
    acc.label(format!("cipher:{}", spec.suite.cipher.name()));
    acc.label(format!("backend_receiver:{:?}", if c.r_to_i { spec.backend_i } else { spec.backend_r }));
    acc.label(if c.stateless { "mode:stateless" } else { "mode:stateful" });
    acc.label(if oneway { "class:one-way" } else { "class:interactive" });
    if c.plen == 65519 {
        acc.label("payload:65519");
    }
    acc.nontrivial(&what);
    Ok(())
}

const NONCE_BASES: [u64; 7] = [0, 1, 0xFFFF_FFFF, 0x1_0000_0000, 1 << 63, u64::MAX - 2, 0x0123_4567_89AB_CDEF];

fn configs(seed: u64, thorough: bool) -> Vec<SessionSpec> {
    let suites = all_suites();
    let mut out = Vec::new();
    let pats = ["NN", "N", "XX", "K", "IK", "X"];
    for (si, suite) in suites.iter().enumerate() {
        for (pi, pat) in pats.iter().enumerate() {
            if !thorough && (si + pi) % 3 != 0 {
                continue;
            }
            for b in [Backend::Default, Backend::RingFirst] {
                if b == Backend::RingFirst && !ring_covers(*suite) {
                    continue;
                }
                let mut spec = SessionSpec::simple(HsName { pattern: pat.to_string(), psks: vec![] }, *suite, mix(seed, (si * 10 + pi) as u64));
                spec.backend_i = b;
                spec.backend_r = b;
                out.push(spec);
            }
        }
    }
    out
}

pub fn run(ctx: &Ctx) {
    let thorough = ctx.tier == Tier::Thorough;
    let cfgs = configs(ctx.seed, thorough);
    let mut cases = Vec::new();
    for (ci, spec) in cfgs.iter().enumerate() {
        for r_to_i in [false, true] {
            // three fixed payload lengths plus one entry of a ladder (rotating over configurations)
            const LADDER: [usize; 16] = [2, 7, 15, 16, 17, 100, 1000, 4080, 4096, 9000, 12288, 16384, 32768, 65503, 65518, 65519];
            let lad = LADDER[(ci * 3 + r_to_i as usize * 7) % 16];
            for (pk, plen) in [0usize, 1, 33, lad, 65519].iter().enumerate() {
                if pk == 4 && ((ci + pk) % 4 != 0 || lad == 65519) && !thorough {
                    continue;
                }
                let total = plen + 16;
                let prior = (ci + pk) % 3;
                let mut f: Vec<Forgery> = Vec::new();
                let mut pos = vec![0usize, total - 1, total - 16, total.saturating_sub(17), total / 2];
                pos.sort();
                pos.dedup();
                for p in pos {
                    f.push(Forgery::Flip(p, 0));
                    f.push(Forgery::Flip(p, 7));
                }
                for k in 0..4u64 {
                    f.push(Forgery::Flip((mix(ctx.seed, ci as u64 * 8 + k) % total as u64) as usize, (k * 2 + 1) as u8));
                }
                for t in [0usize, 1, 15, 16, 17, total.saturating_sub(17), total.saturating_sub(16), total - 1] {
                    if t < total {
                        f.push(Forgery::Trunc(t));
                    }
                }
                for k in [1usize, 16, 17] {
                    if total + k <= 65535 + 20 {
                        f.push(Forgery::Extend(k));
                    }
                }
                f.extend([Forgery::Reflect, Forgery::OtherSession, Forgery::OtherSessionSameStatics, Forgery::Early, Forgery::Replay, Forgery::Garbage(total), Forgery::Garbage(16), Forgery::Garbage(0), Forgery::Zeros(total), Forgery::Zeros(16), Forgery::Zeros(17), Forgery::Reposition((ci + pk) as u8), Forgery::Reposition((ci + pk + 3) as u8), Forgery::Reposition((ci * 3 + pk + 5) as u8), Forgery::Reposition(7 + ((ci + pk) % 4) as u8), Forgery::Reposition(7 + ((ci + pk + 1) % 4) as u8)]);
                f.dedup();
                for (fi, forgery) in f.into_iter().enumerate() {
                    for stateless in [false, true] {
                        // all four buffer relations for the short payloads, rotating for the rest
                        let fbufs: Vec<u8> = if *plen <= 1 { vec![0, 1, 2, 3, 4, 5] } else { vec![((fi + ci) % 6) as u8] };
                        for fbuf in fbufs {
                            cases.push(Case { spec: spec.clone(), r_to_i, plen: *plen, prior, forgery: forgery.clone(), stateless, fbuf, jump: [0u64, 0, 254, 65534, (1 << 32) - 2, (1 << 48) + 5][(fi + ci + pk) % 6], again: ((fi + ci) % 4 == 0) as u8 * 2 });
                        }
                    }
                }
            }
            // stateless nonce pairs
            for (bi, base) in NONCE_BASES.iter().enumerate() {
                if !thorough && (bi + ci) % 2 != 0 {
                    continue;
                }
                for b in 0..64 {
                    cases.push(Case { spec: spec.clone(), r_to_i, plen: if b % 8 == 0 { 0 } else { 5 }, prior: 0, forgery: Forgery::Nonce(*base, base ^ (1u64 << b)), stateless: true, fbuf: (b % 6) as u8, jump: 0, again: (b % 3) as u8 });
                }
            }
            for a in [1u64, 2, 0x0102, 0x0102_0304_0506_0708, 1 << 56, 0xFF00] {
                for b in [a.swap_bytes(), a.rotate_left(32), a.reverse_bits(), (a as u32).swap_bytes() as u64] {
                    if b != a && b != u64::MAX && a != u64::MAX {
                        cases.push(Case { spec: spec.clone(), r_to_i, plen: 5, prior: 0, forgery: Forgery::Nonce(a, b), stateless: true, fbuf: (a % 4) as u8, jump: 0, again: 0 });
                    }
                }
            }
            for (a, b) in [(0u64, 1u64), (1, 0), (0xFFFF_FFFF, 0x1_0000_0000), (0x1_0000_0000, 0), (u64::MAX - 1, u64::MAX), (u64::MAX - 1, 0), (0, u64::MAX), (1 << 32, 1 << 33), (256, 1)] {
                cases.push(Case { spec: spec.clone(), r_to_i, plen: 5, prior: 0, forgery: Forgery::Nonce(a, b), stateless: true, fbuf: (a % 4) as u8, jump: 0, again: 0 });
            }
        }
    }
    ctx.note(format!("{} configurations, {} enumerated forgeries", cfgs.len(), cases.len()));
    ctx.run_list("forgeries", &cases, false, oracle);

    // exhaustive bit flips of whole messages
    let mut ex = Vec::new();
    for (ci, spec) in cfgs.iter().enumerate() {
        if !thorough && ci % 5 != 0 {
            continue;
        }
        for plen in if thorough { vec![0usize, 7, 64] } else { vec![0usize, 7] } {
            for p in 0..plen + 16 {
                for b in 0..8u8 {
                    ex.push(Case { spec: spec.clone(), r_to_i: ci % 2 == 1, plen, prior: ci % 2, forgery: Forgery::Flip(p, b), stateless: ci % 3 == 0, fbuf: ((p + b as usize) % 6) as u8, jump: if p % 5 == 0 { 65533 } else { 0 }, again: 0 });
                }
            }
        }
    }
    ctx.run_list("all_bit_flips", &ex, true, oracle);

    let cfgs2 = std::sync::Arc::new(configs(ctx.seed ^ 5, true));
    ctx.run_prop(
        "random_forgeries",
        ctx.tier.pick(8000, 150_000),
        || {
            let cfgs = cfgs2.clone();
            (any::<u16>(), any::<bool>(), prop_oneof![3 => Just(0usize), 10 => 0usize..300], 0usize..4, any::<u64>(), any::<u64>(), 0u8..6, any::<bool>()).prop_map(move |(ci, r_to_i, plen, prior, a, b, kind, stateless)| {
                let spec = cfgs[pick(ci, cfgs.len())].clone();
                let total = plen + 16;
                let forgery = match kind {
                    0 => Forgery::Flip((a % total as u64) as usize, (b % 8) as u8),
                    1 => Forgery::Trunc((a % total as u64) as usize),
                    2 => Forgery::Extend(1 + (a % 64) as usize),
                    3 => Forgery::Garbage((a % 400) as usize),
                    _ => {
                        let n = a % (u64::MAX - 1);
                        let n2 = if b == n { n ^ 1 } else { b };
                        Forgery::Nonce(n, n2)
                    },
                };
                let stateless = stateless || matches!(forgery, Forgery::Nonce(..));
                Case { spec, r_to_i, plen, prior, forgery, stateless, fbuf: (a >> 60) as u8, jump: if b % 3 == 0 { [253u64, 65533, (1 << 24) - 2, (1 << 31) - 2, (1 << 32) - 2, (1 << 63) - 2][(b % 6) as usize] } else { 0 }, again: (a >> 58) as u8 % 3 }
            })
        },
        oracle,
    );
}

pub fn replay(ctx: &Ctx, sub: &str, case: &serde_json::Value, origin: &str) -> bool {
    if sub == "fuzz_bytes" {
        let bytes: Vec<u8> = serde_json::from_value(case.clone()).unwrap_or_default();
        return match fuzz_case(&bytes) {
            Some(c) => ctx.replay_case::<Case, _>("random_forgeries", &serde_json::to_value(c).unwrap(), oracle, origin),
            None => true,
        };
    }
    ctx.replay_case::<Case, _>(sub, case, oracle, origin)
}
