//! C16 Stateless transport is a pure function of keys, nonce and input.

use super::c10::drive_to;
use super::common::*;
use super::PropDef;
use crate::engine::{expand, mix, Acc, CaseResult, Ctx, Fail};
use crate::instr::Backend;
use crate::sess::*;
use proptest::prelude::*;
use serde::{Deserialize, Serialize};

pub const DEF: PropDef = PropDef {
    id: "C16",
    run,
    replay,
    level: "exploration",
    rule: "metamorphic cases = (pattern class, suite, backend - default, ring-first, mixed (one side ring-first, the other default), and application-supplied cipher wrappers that rely on the provided Cipher::rekey or override it with their own derivation -, a set of (direction, nonce, payload length) items with nonces from boundary values {0,1,2^32-1,2^32,2^63,2^64-2} and random 64-bit values, and a call script that writes and reads the items in arbitrary order with repetitions); oracle: every write of an item yields the same bytes every time, every read under the item's nonce - into buffers of exactly the payload size, 1 / 7 / 15 / 16 / 17 / 100 spare bytes or 70 000 - returns the original payload every time, and the bytes equal the message a STATEFUL sender of an identically keyed session produces when positioned at that nonce. After a rekey - automatic, rekey_manually with BOTH keys in one call, one direction per call in opposite orders on the two sides, or automatic then manual - applied alike to the stateless objects and their stateful twins, the same equalities must hold. Thread stress: 8 threads share one &StatelessTransportState per endpoint and perform interleaved reads/writes; every result must equal the sequentially pre-computed one. Non-trivial = a script with at least one repeated or out-of-order read; distinct by (config, items, script)",
    technique: "metamorphic/differential property testing with proptest (stateless vs stateful sender; repeat/reorder invariance) + multi-threaded stress with a schedule-independent oracle",
    assumptions: &["thread interleavings are sampled by stress only: the harness does not own the scheduler, so a rare interleaving can be missed; the oracle is schedule-independent and cannot raise false alarms"],
    panic_is_violation: false,
    needs_refnoise: false,
};

#[derive(Clone, Debug, Serialize, Deserialize, PartialEq, Eq, Hash)]
pub struct Item {
    pub r_to_i: bool,
    pub nonce: u64,
    pub plen: usize,
}

#[derive(Clone, Debug, Serialize, Deserialize)]
pub struct Case {
    pub pattern: String,
    pub suite_idx: usize,
    pub backend: Backend,
    pub items: Vec<Item>,
    /// (item index, read? else write)
    pub script: Vec<(u8, bool)>,
    pub seed: u64,
    pub threads: u8,
}

fn spec_of(c: &Case) -> SessionSpec {
    let suites = all_suites();
    let suite = suites[c.suite_idx % suites.len()];
    let mut spec = SessionSpec::simple(HsName { pattern: c.pattern.clone(), psks: vec![] }, suite, c.seed);
    if ring_covers(suite) || matches!(c.backend, Backend::PassThrough | Backend::OwnRekey) {
        spec.backend_i = c.backend;
        spec.backend_r = c.backend;
        // a third of the ring cases mix the built-in backends: one side ring-first, the other
        // default (the function of keys, nonce and input must not depend on who computes it)
        if c.backend == Backend::RingFirst && c.seed % 3 == 1 {
            if c.seed % 2 == 0 {
                spec.backend_i = Backend::Default;
            } else {
                spec.backend_r = Backend::Default;
            }
        }
    }
    spec
}

fn oracle(c: &Case, acc: &mut Acc) -> CaseResult {
    let spec = spec_of(c);
    let name = format!("{} [{:?}]", spec.name_string(), c.backend);
    let oneway = spec.pattern().is_oneway();
    let pair = drive_to(&spec, spec.n_msgs())?;
    let ti = pair.i.into_stateless_transport_mode().map_err(|x| Fail::setup(e(&x)))?;
    let tr = pair.r.into_stateless_transport_mode().map_err(|x| Fail::setup(e(&x)))?;
    // identically keyed stateful session (deterministic build)
    let pair2 = drive_to(&spec, spec.n_msgs())?;
    let mut fi = pair2.i.into_transport_mode().map_err(|x| Fail::setup(e(&x)))?;
    let mut fr = pair2.r.into_transport_mode().map_err(|x| Fail::setup(e(&x)))?;
    let items: Vec<Item> = c.items.iter().filter(|it| !(oneway && it.r_to_i)).cloned().collect();
    if items.is_empty() {
        acc.skip("no applicable items");
        return Ok(());
    }
    let payloads: Vec<Vec<u8>> = items.iter().enumerate().map(|(k, it)| expand(c.seed, 50 + k as u64, it.plen)).collect();
    // reference bytes: from the stateful sender placed at the nonce by the hook
    let mut first: Vec<Option<Vec<u8>>> = vec![None; items.len()];
    for (k, it) in items.iter().enumerate() {
        let f = if it.r_to_i { &mut fr } else { &mut fi };
        f.verif_set_sending_nonce(it.nonce);
        if f.sending_nonce() != it.nonce {
            // the stateful reference could not be placed (a counter-setting problem, C09's business)
            return Err(Fail::setup(format!("{name}: the stateful sender could not be placed at nonce {} (it reports {})", it.nonce, f.sending_nonce())));
        }
        let m = t_write(f, &payloads[k], it.plen + 16).map_err(|x| Fail::setup(format!("{name}: stateful write at nonce {}: {}", it.nonce, e(&x))))?;
        first[k] = Some(m);
    }
    let mut repeated = false;
    let mut seen_read = vec![0u32; items.len()];
    let run_call = |k: usize, read: bool| -> CaseResult {
        let it = &items[k];
        let (w, r) = if it.r_to_i { (&tr, &ti) } else { (&ti, &tr) };
        let expect = first[k].as_ref().unwrap();
        if read {
            // the capacity of the caller's buffer (exact, a few spare bytes, a tag more, ample) is
            // not an input of the function being tested: the result must not depend on it
            let slack = [0usize, 1, 7, 15, 16, 17, 100, 70000][(k + it.plen + (it.nonce % 8) as usize) % 8];
            let p = sl_read(r, it.nonce, expect, it.plen + slack).map_err(|x| Fail::new(format!("{name}: read of item {it:?} into a buffer of payload + {slack} bytes failed: {}", e(&x))))?;
            ensure!(p == payloads[k], "{name}: item {it:?}: read returned a different payload");
        } else {
            let m = sl_write(w, it.nonce, &payloads[k], it.plen + 16).map_err(|x| Fail::new(format!("{name}: write of item {it:?} failed: {}", e(&x))))?;
            ensure!(
                &m == expect,
                "{name}: item {it:?}: stateless write differs from the message the stateful sender produces at the same nonce (or from an earlier identical call)\n stateless: {}\n stateful:  {}",
                hexs(&m),
                hexs(expect)
            );
        }
        Ok(())
    };
    if c.threads <= 1 {
        let mut last_read: Option<usize> = None;
        for (k, read) in &c.script {
            let k = *k as usize % items.len();
            run_call(k, *read)?;
            if *read {
                seen_read[k] += 1;
                if seen_read[k] > 1 || last_read.map_or(false, |l| k < l) {
                    repeated = true;
                }
                last_read = Some(k);
            }
        }
    } else {
        let n = c.threads as usize;
        let script = &c.script;
        let results: Vec<CaseResult> = std::thread::scope(|sc| {
            let hs: Vec<_> = (0..n)
                .map(|t| {
                    let run_call = &run_call;
                    let items_len = items.len();
                    sc.spawn(move || -> CaseResult {
                        for round in 0..40 {
                            for (j, (k, read)) in script.iter().enumerate() {
                                let k = (*k as usize + t + round * j) % items_len;
                                run_call(k, *read ^ (t % 2 == 1))?;
                            }
                        }
                        Ok(())
                    })
                })
                .collect();
            hs.into_iter().map(|h| h.join().unwrap_or_else(|_| Err(Fail::new("thread panicked")))).collect()
        });
        for r in results {
            r?;
        }
        repeated = true;
        acc.label(format!("threads:{n}"));
    }
    // after a synchronised rekey of both directions the same must hold with the rekeyed keys
    if c.threads <= 1 && c.seed % 2 == 0 {
        let (mut ti, mut tr, mut fi, mut fr) = (ti, tr, fi, fr);
        let variant = (c.seed / 2) % 4;
        let (ka, kb) = (crate::engine::expand32(c.seed, 4001), crate::engine::expand32(c.seed, 4002));
        if variant == 0 || variant == 3 {
            ti.rekey_outgoing();
            tr.rekey_incoming();
            fi.rekey_outgoing();
            if !oneway {
                tr.rekey_outgoing();
                ti.rekey_incoming();
                fr.rekey_outgoing();
            }
        }
        if variant == 1 || variant == 3 {
            // both keys in ONE call, on the stateless objects and on their stateful twins
            ti.rekey_manually(Some(&ka), Some(&kb));
            tr.rekey_manually(Some(&ka), Some(&kb));
            fi.rekey_manually(Some(&ka), Some(&kb));
            fr.rekey_manually(Some(&ka), Some(&kb));
        }
        if variant == 2 {
            // one direction per call, in opposite orders on the two sides
            ti.rekey_initiator_manually(&ka);
            ti.rekey_responder_manually(&kb);
            tr.rekey_manually(None, Some(&kb));
            tr.rekey_manually(Some(&ka), None);
            fi.rekey_initiator_manually(&ka);
            fi.rekey_responder_manually(&kb);
            fr.rekey_responder_manually(&kb);
            fr.rekey_initiator_manually(&ka);
        }
        acc.label(format!("rekey_variant:{variant}"));
        for (k, it) in items.iter().enumerate() {
            let f = if it.r_to_i { &mut fr } else { &mut fi };
            f.verif_set_sending_nonce(it.nonce);
            if f.sending_nonce() != it.nonce {
                return Err(Fail::setup(format!("{name}: the stateful sender could not be placed at nonce {}", it.nonce)));
            }
            let want = t_write(f, &payloads[k], it.plen + 16).map_err(|x| Fail::setup(format!("{name}: stateful write after rekey: {}", e(&x))))?;
            let (w, r) = if it.r_to_i { (&tr, &ti) } else { (&ti, &tr) };
            for round in 0..2 {
                let m = sl_write(w, it.nonce, &payloads[k], it.plen + 16).map_err(|x| Fail::new(format!("{name}: write of item {it:?} after rekey failed: {}", e(&x))))?;
                ensure!(m == want, "{name}: item {it:?} after a rekey (round {round}): stateless write differs from the rekeyed stateful sender");
                let slack = [0usize, 3, 15, 16, 40][(k + round) % 5];
                let p = sl_read(r, it.nonce, &m, it.plen + slack).map_err(|x| Fail::new(format!("{name}: read of item {it:?} after rekey (buffer payload + {slack}) failed: {}", e(&x))))?;
                ensure!(p == payloads[k], "{name}: item {it:?} after rekey: payload differs");
            }
        }
        acc.label("checked_after_rekey");
    }
    acc.label(format!("cipher:{}", spec.suite.cipher.name()));
    acc.label(format!("backend:{:?}", spec.backend_i));
    if items.iter().any(|i| i.nonce >= 1 << 32) {
        acc.label("nonce:high_bits");
    }
    if items.iter().any(|i| i.r_to_i) {
        acc.label("dir:r->i");
    }
    if repeated {
        acc.nontrivial(&(name, items.clone(), c.script.clone(), c.threads));
    }
    Ok(())
}

#[derive(Clone, Debug, Serialize, Deserialize)]
pub struct HistCase {
    pub pattern: String,
    pub suite_idx: usize,
    pub backend: Backend,
    /// number of rejected reads (bad tag / garbage / truncated / wrong nonce) in the history
    pub n_fail: usize,
    pub seed: u64,
    pub threads: u8,
}

/// Purity across long histories: the result of a read depends on (keys, nonce, input) only,
/// not on how many reads - including rejected ones - happened before.
fn hist_oracle(c: &HistCase, acc: &mut Acc) -> CaseResult {
    let spec = spec_of(&Case { pattern: c.pattern.clone(), suite_idx: c.suite_idx, backend: c.backend, items: vec![], script: vec![], seed: c.seed, threads: 1 });
    let name = format!("{} [{:?}]", spec.name_string(), c.backend);
    let oneway = spec.pattern().is_oneway();
    let pair = drive_to(&spec, spec.n_msgs())?;
    let ti = pair.i.into_stateless_transport_mode().map_err(|x| Fail::setup(e(&x)))?;
    let tr = pair.r.into_stateless_transport_mode().map_err(|x| Fail::setup(e(&x)))?;
    let genuine: Vec<(bool, u64, Vec<u8>, Vec<u8>)> = (0..6u64)
        .map(|k| {
            let r_to_i = k % 2 == 1 && !oneway;
            let n = if k < 3 { k } else { mix(c.seed, k) % (u64::MAX - 1) };
            let p = expand(c.seed, 10 + k, 5 + k as usize * 9);
            let w = if r_to_i { &tr } else { &ti };
            let m = sl_write(w, n, &p, p.len() + 16).unwrap_or_default();
            (r_to_i, n, p, m)
        })
        .collect();
    ensure!(genuine.iter().all(|g| !g.3.is_empty()), "{name}: set-up writes failed");
    let check_all = |when: &str| -> CaseResult {
        for (r_to_i, n, p, m) in &genuine {
            let (w, r) = if *r_to_i { (&tr, &ti) } else { (&ti, &tr) };
            let got = sl_read(r, *n, m, p.len()).map_err(|x| Fail::new(format!("{name}: {when}: a genuine message (nonce {n}) is no longer read back: {}", e(&x))))?;
            ensure!(got == *p, "{name}: {when}: payload differs");
            let again = sl_write(w, *n, p, p.len() + 16).map_err(|x| Fail::new(format!("{name}: {when}: write failed: {}", e(&x))))?;
            ensure!(again == *m, "{name}: {when}: the same write now produces different bytes");
        }
        Ok(())
    };
    check_all("before any rejected read")?;
    let worker = |t: usize, count: usize| -> CaseResult {
        for k in 0..count {
            let g = &genuine[(k + t) % genuine.len()];
            let r = if g.0 { &ti } else { &tr };
            let mut bad = g.3.clone();
            let mut n = g.1;
            match (k + t) % 4 {
                0 => {
                    let l = bad.len();
                    bad[l - 1] ^= 1;
                },
                1 => bad = expand(c.seed, 5000 + k as u64, 16 + k % 40),
                2 => {
                    bad.truncate(bad.len() - 1);
                },
                _ => n ^= 1 << ((k % 63) as u64),
            }
            if n == u64::MAX {
                n = 3;
            }
            let mut buf = vec![0u8; 200];
            let res = r.read_message(n, &bad, &mut buf);
            ensure!(res.is_err(), "{name}: altered delivery {k} accepted");
        }
        Ok(())
    };
    if c.threads <= 1 {
        let mut done = 0;
        while done < c.n_fail {
            let step = 16.min(c.n_fail - done);
            worker(done, step)?;
            done += step;
            check_all(&format!("after {done} rejected reads"))?;
        }
    } else {
        let n = c.threads as usize;
        let per = c.n_fail / n + 1;
        let results: Vec<CaseResult> = std::thread::scope(|sc| {
            let hs: Vec<_> = (0..n)
                .map(|t| {
                    let worker = &worker;
                    let check_all = &check_all;
                    sc.spawn(move || -> CaseResult {
                        worker(t, per)?;
                        check_all("after this thread's rejected reads (other threads still running)")
                    })
                })
                .collect();
            hs.into_iter().map(|h| h.join().unwrap_or_else(|_| Err(Fail::new("thread panicked")))).collect()
        });
        for r in results {
            r?;
        }
        check_all("after all threads finished")?;
    }
    acc.label(format!("history_rejected_reads:{}", if c.n_fail >= 1000 { ">=1000" } else if c.n_fail >= 100 { ">=100" } else { "<100" }));
    acc.label(format!("backend:{:?}", spec.backend_i));
    acc.nontrivial(&(name, c.n_fail, c.threads));
    Ok(())
}

const NONCES: [u64; 12] = [0, 1, 0xFFFF_FFFF, 0x1_0000_0000, 1 << 63, u64::MAX - 2, u64::MAX - 1, 0xDEAD_BEEF_0BAD_F00D, 1 << 16, (1 << 16) + 1, 0xABCD_0000, 0x7_0000_0000_0000];

pub fn run(ctx: &Ctx) {
    // deterministic boundary cases
    let mut cases = Vec::new();
    let pats = ["NN", "N", "XX", "K"];
    let mut k = 0usize;
    for suite_idx in 0..24 {
        // ... and ciphers supplied by the application: a pass-through wrapper (trait's provided
        // rekey) and one that overrides `Cipher::rekey` with its own derivation - stateless and
        // stateful objects must ask the CIPHER for the new key in the same way
        for backend in [Backend::Default, Backend::RingFirst, Backend::PassThrough, Backend::OwnRekey] {
            for pat in pats {
                k += 1;
                if ctx.tier.pick(k % 2 != 0, false) {
                    continue;
                }
                let items: Vec<Item> = NONCES.iter().enumerate().map(|(j, n)| Item { r_to_i: (j + k) % 3 == 0, nonce: *n, plen: [0usize, 1, 16, 33, 1000][(j + k) % 5] }).collect();
                let script: Vec<(u8, bool)> = (0..24u8).map(|j| ((j * 5 + 3) % 8, j % 3 != 0)).collect();
                cases.push(Case { pattern: pat.to_string(), suite_idx, backend, items, script, seed: mix(ctx.seed, k as u64), threads: 1 });
            }
        }
    }
    ctx.run_list("boundary_nonces", &cases, false, oracle);
    ctx.run_prop(
        "random_scripts",
        ctx.tier.pick(20_000, 200_000),
        || {
            let nonce = prop_oneof![2 => (0usize..NONCES.len()).prop_map(|i| NONCES[i]), 2 => any::<u64>().prop_map(|v| if v == u64::MAX { 7 } else { v }), 1 => 0u64..1000];
            let item = (any::<bool>(), nonce, prop_oneof![4 => 0usize..80, 1 => Just(65519usize), 1 => 0usize..5000, 1 => 5000usize..40000]).prop_map(|(r_to_i, nonce, plen)| Item { r_to_i, nonce, plen });
            (prop_oneof![3 => Just("NN"), 1 => Just("N"), 1 => Just("XX"), 1 => Just("K"), 1 => Just("IK")], 0usize..24, any::<bool>(), prop::collection::vec(item, 1..8), prop::collection::vec((any::<u8>(), any::<bool>()), 1..30), any::<u64>()).prop_map(
                |(p, suite_idx, ring, items, script, seed)| Case { pattern: p.to_string(), suite_idx, backend: if ring { Backend::RingFirst } else { [Backend::Default, Backend::Default, Backend::PassThrough, Backend::OwnRekey][(seed % 4) as usize] }, items, script, seed, threads: 1 },
            )
        },
        oracle,
    );
    // thread stress: one case per shard worker would oversubscribe; run a handful sequentially sharded
    let mut tcases = Vec::new();
    for suite_idx in 0..ctx.tier.pick(6usize, 24) {
        for backend in [Backend::Default, Backend::RingFirst] {
            let items: Vec<Item> = (0..16u64)
                .map(|j| Item {
                    r_to_i: j % 2 == 1,
                    // items 12..15 re-use the nonces of items 0..3 with different payloads
                    nonce: if j >= 12 { NONCES[(j - 12) as usize] } else if j < 8 { NONCES[j as usize] } else { mix(ctx.seed, j) % (u64::MAX - 1) },
                    plen: if j % 4 == 2 { [9000usize, 20000, 40000, 65519][(j as usize / 4) % 4] } else { (j as usize * 37) % 300 },
                })
                .collect();
            let script: Vec<(u8, bool)> = (0..40u8).map(|j| (j.wrapping_mul(7), j % 2 == 0)).collect();
            tcases.push(Case { pattern: "NN".into(), suite_idx: suite_idx * 4 % 24 + suite_idx / 6, backend, items, script, seed: mix(ctx.seed, 1000 + suite_idx as u64), threads: 8 });
        }
    }
    ctx.note(format!("thread stress: {} sessions x 8 threads x 40 rounds x 40 calls on shared &StatelessTransportState", tcases.len()));
    ctx.run_list("thread_stress", &tcases, false, oracle);
    // long histories with many rejected reads (sequential and from 8 threads)
    let mut hcases = Vec::new();
    for (k, n_fail) in ctx.tier.pick(vec![1usize, 17, 40, 100, 300, 1000], vec![1usize, 17, 40, 100, 300, 1000, 5000, 70000]).into_iter().enumerate() {
        for (j, pat) in ["NN", "N", "XX"].iter().enumerate() {
            for backend in [Backend::Default, Backend::RingFirst] {
                for threads in [1u8, 8] {
                    hcases.push(HistCase { pattern: pat.to_string(), suite_idx: (k * 5 + j * 7) % 24, backend, n_fail, seed: mix(ctx.seed, (k * 10 + j) as u64), threads });
                }
            }
        }
    }
    ctx.run_list("rejected_read_histories", &hcases, false, hist_oracle);
}

pub fn replay(ctx: &Ctx, sub: &str, case: &serde_json::Value, origin: &str) -> bool {
    if sub == "rejected_read_histories" {
        return ctx.replay_case::<HistCase, _>(sub, case, hist_oracle, origin);
    }
    ctx.replay_case::<Case, _>(sub, case, oracle, origin)
}
