//! C06 No AEAD (key, nonce) pair is ever used to encrypt two different inputs; ephemerals
//! are drawn during the write that sends them. History invariant over a recording cipher.

use super::c07::{Cause, Fault};
use super::common::*;
use super::PropDef;
use crate::engine::{expand, expand32, mix, pick, Acc, CaseResult, Ctx, Fail, Tier};
use crate::instr::{Ev, Log, SharedRng};
use crate::refcrypto::{self as rc, DhKind};
use crate::refnoise::{FieldKind, Tok};
use crate::sess::*;
use proptest::prelude::*;
use serde::{Deserialize, Serialize};
use std::collections::HashMap;

pub const DEF: PropDef = PropDef {
    id: "C06",
    run,
    replay,
    level: "exploration",
    rule: "cases = (handshake string, suite, backend, per-message failing attempts from the C07 fault alphabet each followed by a retry with a DIFFERENT payload, then a transport script over {write, failing write, auto rekey of either direction on either side, manual rekey with fresh keys or (stateful mode) with the SAME keys as the previous manual rekey, stateless writes with distinct nonces per key epoch (numbering may restart at 0 after the SENDER installed a fresh manual key for its direction), set_receiving_nonce on either side (also the send-only side of one-way patterns), delivery of the last written message, the sending counter moved forward to 2^64-1-k and writes / rekeys there}); both endpoints use a recording cipher/DH and a seeded RNG that yields fresh bytes on every draw. Oracle: in the merged log of both endpoints no two Enc records share (key, nonce) with different (ad, plaintext) (rekey encryptions included); for every written message containing `e`, the public key on the wire is the DH public key of bytes drawn from the RNG during that very call. Non-trivial = the history contains a failed call that was retried, or a rekey; distinct by (name, suite, faults, transport script)",
    technique: "history invariant over an instrumented CryptoResolver (recording cipher + recording RNG), fault schedules enumerated from reference field maps + proptest",
    assumptions: &[
        "caller-induced reuse is out of domain: fixed ephemerals, duplicate stateless nonces, backward moves of the sending counter with the verif hook and, in stateless mode, manual rekeys to an already used key are not generated (the hook is only used to move a sending counter forward to 2^64-1-k)",
        "the recording cipher runs the trait's default rekey through its own logged encrypt/set (no backend overrides rekey)",
    ],
    panic_is_violation: false,
    needs_refnoise: false,
};

#[derive(Clone, Debug, Serialize, Deserialize, PartialEq, Eq, Hash)]
pub enum TOp {
    /// (initiator writes?, payload length)
    Write(bool, usize),
    /// failing write: undersized buffer / oversize payload
    FailWrite(bool, u8),
    /// auto rekey: (side initiator?, outgoing?)
    Rekey(bool, bool),
    /// manual rekey: (side initiator?, which % 3: 0 initiator key, 1 responder key, 2 both; which < 3 fresh keys,
    /// which >= 3 in stateful mode the same keys as last time)
    Manual(bool, u8),
    /// deliver garbage to the reader (must not matter)
    ReadGarbage(bool, usize),
    /// stateless only: a write attempted under the reserved nonce 2^64-1 (must not encrypt)
    WriteAtMax(bool, usize),
    /// stateful only: set_receiving_nonce on a side (also on the send-only side of a one-way
    /// pattern): moves the RECEIVING counter only, so it can never lead to a second encryption
    SetRecvNonce(bool, u8),
    /// deliver the last message written in a direction (true = written by the initiator) to the
    /// peer; decryption only
    Deliver(bool),
    /// stateful only: the sending counter of a side is moved FORWARD to 2^64-1-k (k = 0, 1, 2) with
    /// the verif hook (never backwards, so no reuse is caused by the caller); writes at 2^64-1
    /// must fail without encrypting anything
    JumpToEnd(bool, u8),
}

#[derive(Clone, Debug, Serialize, Deserialize)]
pub struct Case {
    pub spec: SessionSpec,
    pub faults: Vec<Fault>,
    pub plen: usize,
    pub tops: Vec<TOp>,
    pub stateless: bool,
}

fn check_log(name: &str, log: &Log) -> Result<(usize, usize), Fail> {
    let evs = log.events();
    // (key, nonce) -> (ad, pt, index)
    let mut seen: HashMap<([u8; 32], u64), (Vec<u8>, Vec<u8>, usize)> = HashMap::new();
    let mut encs = 0;
    let mut rekeys = 0;
    let mut last_mark = String::new();
    let mut marks: Vec<String> = Vec::new();
    for (i, ev) in evs.iter().enumerate() {
        match ev {
            Ev::Mark(m) => {
                last_mark = m.clone();
                marks.push(m.clone());
            },
            Ev::Enc { key, nonce, ad, pt, .. } => {
                encs += 1;
                if crate::instr::is_rekey_shape(ev) {
                    rekeys += 1;
                }
                let Some(k) = key else {
                    return Err(Fail::new(format!("{name}: encryption without any key set (during {last_mark})")));
                };
                match seen.get(&(*k, *nonce)) {
                    Some((ad0, pt0, i0)) if ad0 != ad || pt0 != pt => {
                        return Err(Fail::new(format!(
                            "{name}: AEAD (key, nonce) reuse for different data: key {} nonce {} used at log index {} and again at {} (during {last_mark}); plaintexts {} / {}, ad {} / {}\n history: {}",
                            hexs(k),
                            nonce,
                            i0,
                            i,
                            hexs(pt0),
                            hexs(pt),
                            hexs(ad0),
                            hexs(ad),
                            marks.join(" ; ")
                        )));
                    },
                    Some(_) => {},
                    None => {
                        seen.insert((*k, *nonce), (ad.clone(), pt.clone(), i));
                    },
                }
            },
            _ => {},
        }
    }
    Ok((encs, rekeys))
}

pub fn oracle(c: &Case, acc: &mut Acc) -> CaseResult {
    let mut spec = c.spec.clone();
    spec.eph = EphMode::Rng;
    let name = spec.name_string();
    let log = Log::default();
    let p256 = spec.suite.dh == DhKind::P256;
    let rng_i = SharedRng::seeded(mix(spec.key_seed, 1), p256);
    let rng_r = SharedRng::seeded(mix(spec.key_seed, 2), p256);
    let mut omit_i = vec![];
    let mut omit_r = vec![];
    for f in &c.faults {
        match &f.cause {
            Cause::WPsk(n) => (if f.idx % 2 == 0 { &mut omit_i } else { &mut omit_r }).push(*n),
            Cause::RPsk(n) => (if f.idx % 2 == 0 { &mut omit_r } else { &mut omit_i }).push(*n),
            _ => {},
        }
    }
    let mk = |init: bool, omit: &Vec<u8>, rng: &SharedRng| {
        let ov = EpOverrides { omit_psks: omit.clone(), ..Default::default() };
        build_snow(&spec, init, &ov, &Instr { rng: Some(rng.clone()), log: Some(log.clone()) })
            .map_err(|x| Fail::setup(format!("build {name}: {}", e(&x))))
    };
    let mut hi = mk(true, &omit_i, &rng_i)?;
    let mut hr = mk(false, &omit_r, &rng_r)?;
    let lay = spec.layouts();
    let toks = spec.pattern().with_psks(&spec.hs.psks).unwrap();
    let nm = lay.len();
    let mut retried = 0usize;
    let mut attempt = 0u64;
    let mut completed = true;
    'hs: for idx in 0..nm {
        let i_sends = idx % 2 == 0;
        let (w, r, wrng) = if i_sends { (&mut hi, &mut hr, &rng_i) } else { (&mut hr, &mut hi, &rng_r) };
        // failing write attempts, each with its own payload
        for f in c.faults.iter().filter(|f| f.idx == idx) {
            for _ in 0..f.reps.max(1) {
                attempt += 1;
                let payload = expand(spec.key_seed, 3000 + attempt, c.plen);
                log.mark(format!("msg {idx} failing attempt {:?}", f.cause));
                let res = match &f.cause {
                    Cause::WBuf(b) => {
                        let mut buf = vec![0u8; *b];
                        Some(w.write_message(&payload, &mut buf))
                    },
                    Cause::WBig => {
                        let big = expand(spec.key_seed, 4000 + attempt, 65535 - lay[idx].overhead + 1 + (attempt % 20) as usize);
                        let mut buf = vec![0u8; 70000];
                        Some(w.write_message(&big, &mut buf))
                    },
                    Cause::WPsk(_) => {
                        let mut buf = vec![0u8; 65535];
                        Some(w.write_message(&payload, &mut buf))
                    },
                    Cause::WTurn => {
                        let mut buf = vec![0u8; 65535];
                        Some(r.write_message(&payload, &mut buf))
                    },
                    Cause::RTurn => {
                        let mut buf = vec![0u8; 65535];
                        Some(w.read_message(&payload, &mut buf))
                    },
                    _ => None,
                };
                if let Some(res) = res {
                    if res.is_err() {
                        retried += 1;
                    } else if matches!(f.cause, Cause::WBuf(_) | Cause::WBig | Cause::WPsk(_)) {
                        // the "failing" attempt succeeded (tolerance band): the message is out; stop here
                        completed = false;
                        break 'hs;
                    }
                }
            }
            if let Cause::WPsk(n) = &f.cause {
                let _ = w.set_psk(*n as usize, &spec.psk(*n));
            }
        }
        attempt += 1;
        let payload = expand(spec.key_seed, 3000 + attempt, c.plen);
        log.mark(format!("msg {idx} valid write"));
        let draws_before = wrng.draw_count();
        let mut buf = vec![0u8; lay[idx].overhead + c.plen + 16];
        let msg = match w.write_message(&payload, &mut buf) {
            Ok(n) => buf[..n].to_vec(),
            Err(_) => {
                // that the retry must succeed is C07's business; C06 judges the history so far
                completed = false;
                break;
            },
        };
        // ephemeral freshness
        if toks[idx].contains(&Tok::E) {
            let draws = wrng.draws();
            ensure!(
                draws.len() > draws_before,
                "{name}: message {idx} carries an ephemeral key but nothing was drawn from the resolver's RNG during that write"
            );
            let f = lay[idx].fields.iter().find(|f| f.kind == FieldKind::E).unwrap();
            let on_wire = &msg[f.off..f.off + f.len];
            let mut k = [0u8; 32];
            k.copy_from_slice(&draws.last().unwrap()[..32]);
            let expect = rc::dh_pub(spec.suite.dh, &k).ok_or("rng produced an invalid scalar")?;
            ensure!(
                on_wire == &expect[..],
                "{name}: message {idx}: the ephemeral public key on the wire is not the public key of the bytes drawn from the RNG during this write (wire {}, drawn {})",
                hexs(on_wire),
                hexs(&expect)
            );
            acc.label("ephemeral_checked");
        }
        // failing reads
        for f in c.faults.iter().filter(|f| f.idx == idx) {
            for _ in 0..f.reps.max(1) {
                log.mark(format!("msg {idx} failing read {:?}", f.cause));
                let res = match &f.cause {
                    Cause::RFlip(pos, bit) => {
                        let mut m = msg.clone();
                        let p = *pos % m.len();
                        m[p] ^= 1 << (bit % 8);
                        let mut buf = vec![0u8; 65535];
                        Some(r.read_message(&m, &mut buf))
                    },
                    Cause::RTrunc(l) => {
                        let mut buf = vec![0u8; 65535];
                        Some(r.read_message(&msg[..(*l).min(msg.len().saturating_sub(1))], &mut buf))
                    },
                    Cause::RPbuf(b) => {
                        let mut buf = vec![0u8; *b];
                        Some(r.read_message(&msg, &mut buf))
                    },
                    Cause::RPsk(_) => {
                        let mut buf = vec![0u8; 65535];
                        Some(r.read_message(&msg, &mut buf))
                    },
                    Cause::RReflect => {
                        let mut buf = vec![0u8; 65535];
                        Some(w.read_message(&msg, &mut buf))
                    },
                    _ => None,
                };
                if let Some(Err(_)) = res {
                    retried += 1;
                } else if let Some(Ok(_)) = res {
                    if !matches!(f.cause, Cause::RReflect) {
                        // the altered message was accepted (unauthenticated field): session diverged; stop
                        completed = false;
                        break 'hs;
                    }
                }
            }
            if let Cause::RPsk(n) = &f.cause {
                let _ = r.set_psk(*n as usize, &spec.psk(*n));
            }
        }
        log.mark(format!("msg {idx} valid read"));
        let mut buf = vec![0u8; c.plen + 16];
        if r.read_message(&msg, &mut buf).is_err() {
            completed = false;
            break;
        }
    }
    let mut rekeys_done = 0;
    if completed && hi.is_handshake_finished() && hr.is_handshake_finished() {
        let oneway = spec.pattern().is_oneway();
        let mut fresh = 0u64;
        if c.stateless {
            let mut ti = hi.into_stateless_transport_mode().map_err(|x| Fail::setup(e(&x)))?;
            let mut tr = hr.into_stateless_transport_mode().map_err(|x| Fail::setup(e(&x)))?;
            let mut n = [0u64; 2];
            let mut last: [Option<(u64, Vec<u8>)>; 2] = [None, None];
            for (k, op) in c.tops.iter().enumerate() {
                log.mark(format!("transport(stateless) {op:?}"));
                match op {
                    TOp::Write(i_w, plen) => {
                        let i_w = *i_w || oneway;
                        let d = if i_w { 0 } else { 1 };
                        let payload = expand(spec.key_seed, 6000 + k as u64, *plen);
                        let mut buf = vec![0u8; plen + 16];
                        let t = if i_w { &ti } else { &tr };
                        // distinct nonces per direction, not necessarily consecutive
                        let nonce = n[d] * 3 + (spec.key_seed % 3);
                        n[d] += 1;
                        if let Ok(l) = t.write_message(nonce, &payload, &mut buf) {
                            last[d] = Some((nonce, buf[..l].to_vec()));
                        }
                    },
                    TOp::FailWrite(i_w, kind) => {
                        let t = if *i_w { &ti } else { &tr };
                        let payload = expand(spec.key_seed, 6500 + k as u64, if kind % 2 == 0 { 10 } else { 65535 - 15 });
                        let mut buf = vec![0u8; if kind % 2 == 0 { 25 } else { 70000 }];
                        let d = if *i_w { 0 } else { 1 };
                        let _ = t.write_message(n[d] * 3 + (spec.key_seed % 3), &payload, &mut buf);
                    },
                    TOp::Rekey(side_i, outgoing) => {
                        rekeys_done += 1;
                        let t = if *side_i { &mut ti } else { &mut tr };
                        if *outgoing {
                            t.rekey_outgoing()
                        } else {
                            t.rekey_incoming()
                        }
                    },
                    TOp::Manual(side_i, which) => {
                        rekeys_done += 1;
                        fresh += 2;
                        let k1 = expand32(spec.key_seed, 9000 + fresh);
                        let k2 = expand32(spec.key_seed, 9001 + fresh);
                        let t = if *side_i { &mut ti } else { &mut tr };
                        match which % 3 {
                            0 => t.rekey_manually(Some(&k1), None),
                            1 => t.rekey_manually(None, Some(&k2)),
                            _ => t.rekey_manually(Some(&k1), Some(&k2)),
                        }
                        // fresh keys: an application may number the messages of the new epoch from
                        // 0 again (uniqueness is per key). Only the sender's key matters for
                        // encryption: the initiator sends in direction 0, the responder in 1.
                        let fresh_dir0 = *side_i && which % 3 != 1;
                        let fresh_dir1 = !*side_i && which % 3 != 0;
                        if fresh_dir0 && spec.key_seed % 2 == 0 {
                            n[0] = 0;
                        }
                        if fresh_dir1 && spec.key_seed % 2 == 0 {
                            n[1] = 0;
                        }
                    },
                    TOp::ReadGarbage(i_r, l) => {
                        let t = if *i_r { &ti } else { &tr };
                        let mut buf = vec![0u8; 70000];
                        let _ = t.read_message(k as u64, &expand(spec.key_seed, 7000 + k as u64, *l), &mut buf);
                    },
                    TOp::WriteAtMax(i_w, plen) => {
                        let t = if *i_w || oneway { &ti } else { &tr };
                        let payload = expand(spec.key_seed, 7500 + k as u64, *plen);
                        let mut buf = vec![0u8; plen + 16];
                        let _ = t.write_message(u64::MAX, &payload, &mut buf);
                    },
                    TOp::SetRecvNonce(..) | TOp::JumpToEnd(..) => {},
                    TOp::Deliver(from_i) => {
                        let d = if *from_i || oneway { 0 } else { 1 };
                        if let Some((nonce, m)) = &last[d] {
                            let t = if d == 0 { &tr } else { &ti };
                            let mut buf = vec![0u8; m.len()];
                            let _ = t.read_message(*nonce, m, &mut buf);
                        }
                    },
                }
            }
        } else {
            let mut ti = hi.into_transport_mode().map_err(|x| Fail::setup(e(&x)))?;
            let mut tr = hr.into_transport_mode().map_err(|x| Fail::setup(e(&x)))?;
            let mut last: [Option<Vec<u8>>; 2] = [None, None];
            for (k, op) in c.tops.iter().enumerate() {
                log.mark(format!("transport {op:?}"));
                match op {
                    TOp::Write(i_w, plen) => {
                        let i_w = *i_w || oneway;
                        let payload = expand(spec.key_seed, 6000 + k as u64, *plen);
                        let mut buf = vec![0u8; plen + 16];
                        let t = if i_w { &mut ti } else { &mut tr };
                        if let Ok(l) = t.write_message(&payload, &mut buf) {
                            last[if i_w { 0 } else { 1 }] = Some(buf[..l].to_vec());
                        }
                    },
                    TOp::SetRecvNonce(side_i, v) => {
                        let t = if *side_i { &mut ti } else { &mut tr };
                        t.set_receiving_nonce([0u64, 0, 1, 2, 5, 1000][*v as usize % 6]);
                    },
                    TOp::JumpToEnd(side_i, k) => {
                        let t = if *side_i || oneway { &mut ti } else { &mut tr };
                        let target = u64::MAX - (*k % 3) as u64;
                        if t.sending_nonce() <= target {
                            t.verif_set_sending_nonce(target);
                        }
                    },
                    TOp::Deliver(from_i) => {
                        let d = if *from_i || oneway { 0 } else { 1 };
                        if let Some(m) = &last[d] {
                            let t = if d == 0 { &mut tr } else { &mut ti };
                            let mut buf = vec![0u8; m.len()];
                            let _ = t.read_message(m, &mut buf);
                        }
                    },
                    TOp::FailWrite(i_w, kind) => {
                        let t = if *i_w { &mut ti } else { &mut tr };
                        let payload = expand(spec.key_seed, 6500 + k as u64, if kind % 2 == 0 { 10 } else { 65535 - 15 });
                        let mut buf = vec![0u8; if kind % 2 == 0 { 25 } else { 70000 }];
                        let _ = t.write_message(&payload, &mut buf);
                    },
                    TOp::Rekey(side_i, outgoing) => {
                        rekeys_done += 1;
                        let t = if *side_i { &mut ti } else { &mut tr };
                        if *outgoing {
                            t.rekey_outgoing()
                        } else {
                            t.rekey_incoming()
                        }
                    },
                    TOp::Manual(side_i, which) => {
                        rekeys_done += 1;
                        // which >= 3 (stateful mode only): the SAME manual keys as last time are
                        // installed again (a repeated rekey instruction). The counters of a stateful
                        // session only move forward, so this is safe on the caller's part.
                        if *which < 3 {
                            fresh += 2;
                        } else {
                            acc.label("manual_rekey:same keys installed again (stateful)");
                        }
                        let k1 = expand32(spec.key_seed, 9000 + fresh);
                        let k2 = expand32(spec.key_seed, 9001 + fresh);
                        let t = if *side_i { &mut ti } else { &mut tr };
                        match which % 3 {
                            0 => t.rekey_manually(Some(&k1), None),
                            1 => t.rekey_manually(None, Some(&k2)),
                            _ => t.rekey_manually(Some(&k1), Some(&k2)),
                        }
                    },
                    TOp::ReadGarbage(i_r, l) => {
                        let t = if *i_r { &mut ti } else { &mut tr };
                        let mut buf = vec![0u8; 70000];
                        let _ = t.read_message(&expand(spec.key_seed, 7000 + k as u64, *l), &mut buf);
                    },
                    TOp::WriteAtMax(..) => {},
                }
            }
        }
    }
    let (encs, _rekeys) = check_log(&name, &log)?;
    acc.label(format!("encryptions:{}", encs.min(20)));
    acc.label(format!("completed:{completed}"));
    for f in &c.faults {
        acc.label(format!("cause:{}", format!("{:?}", f.cause).split('(').next().unwrap()));
    }
    if rekeys_done > 0 {
        acc.label("has_rekey");
    }
    if retried > 0 {
        acc.label("has_retry");
    }
    if (retried > 0 || rekeys_done > 0) && encs > 0 {
        acc.nontrivial(&(name, spec.suite, c.faults.clone(), c.tops.clone(), c.stateless));
    }
    Ok(())
}

fn write_faults(spec: &SessionSpec, plen: usize) -> Vec<Fault> {
    // the C07 alphabet restricted to causes C06's runner injects
    super::c07::faults_for(spec, plen)
        .into_iter()
        .filter(|f| {
            f.idx < spec.n_msgs()
                && matches!(
                    f.cause,
                    Cause::WBuf(_) | Cause::WBig | Cause::WPsk(_) | Cause::WTurn | Cause::RTurn | Cause::RFlip(..) | Cause::RTrunc(_) | Cause::RPbuf(_) | Cause::RPsk(_) | Cause::RReflect
                )
        })
        .collect()
}

fn default_tops() -> Vec<TOp> {
    vec![
        TOp::Write(true, 5),
        TOp::SetRecvNonce(true, 0),
        TOp::Deliver(true),
        TOp::Write(true, 6),
        TOp::Write(false, 7),
        TOp::SetRecvNonce(false, 1),
        TOp::Deliver(false),
        TOp::Write(false, 8),
        TOp::SetRecvNonce(true, 2),
        TOp::FailWrite(true, 0),
        TOp::FailWrite(true, 1),
        TOp::Write(true, 5),
        TOp::Rekey(true, true),
        TOp::Rekey(false, false),
        TOp::Write(true, 0),
        TOp::Rekey(false, true),
        TOp::Write(false, 9),
        TOp::ReadGarbage(true, 30),
        TOp::Manual(true, 2),
        TOp::Write(true, 3),
        TOp::Write(false, 3),
        TOp::Manual(true, 5),
        TOp::Write(true, 4),
        TOp::Manual(false, 5),
        TOp::Write(false, 4),
        TOp::Rekey(true, true),
        TOp::Rekey(true, true),
        TOp::Write(true, 3),
        TOp::WriteAtMax(true, 32),
        TOp::WriteAtMax(false, 32),
        TOp::Rekey(true, true),
        TOp::Rekey(false, true),
        TOp::Write(true, 3),
        TOp::JumpToEnd(true, 1),
        TOp::Write(true, 4),
        TOp::Write(true, 5),
        TOp::Write(true, 6),
        TOp::Rekey(true, true),
        TOp::Rekey(false, false),
        TOp::JumpToEnd(false, 0),
        TOp::Write(false, 4),
        TOp::Write(false, 9),
        TOp::Rekey(false, true),
    ]
}

fn top_strategy() -> impl Strategy<Value = TOp> {
    prop_oneof![
        5 => (any::<bool>(), 0usize..40).prop_map(|(a, b)| TOp::Write(a, b)),
        1 => (any::<bool>(), 0u8..2).prop_map(|(a, b)| TOp::FailWrite(a, b)),
        3 => (any::<bool>(), any::<bool>()).prop_map(|(a, b)| TOp::Rekey(a, b)),
        1 => (any::<bool>(), 0u8..6).prop_map(|(a, b)| TOp::Manual(a, b)),
        1 => (any::<bool>(), 0usize..60).prop_map(|(a, b)| TOp::ReadGarbage(a, b)),
        1 => (any::<bool>(), prop_oneof![Just(32usize), 0usize..40]).prop_map(|(a, b)| TOp::WriteAtMax(a, b)),
        1 => (any::<bool>(), 0u8..6).prop_map(|(a, b)| TOp::SetRecvNonce(a, b)),
        1 => any::<bool>().prop_map(TOp::Deliver),
        1 => (any::<bool>(), 0u8..3).prop_map(|(a, b)| TOp::JumpToEnd(a, b)),
    ]
}

pub fn run(ctx: &Ctx) {
    let names = if ctx.tier == Tier::Thorough { all_hs_names() } else { some_hs_names(3) };
    let suites = all_suites();
    let mut cases = Vec::new();
    for (ni, hs) in names.iter().enumerate() {
        for k in 0..ctx.tier.pick(1, 3) {
            let suite = suites[(ni * 5 + k * 7 + 1) % suites.len()];
            let mut spec = SessionSpec::simple(hs.clone(), suite, mix(ctx.seed, (ni * 13 + k) as u64));
            spec.eph = EphMode::Rng;
            if ring_covers(suite) {
                spec.backend_i = crate::instr::BACKENDS[ni % 3];
                spec.backend_r = crate::instr::BACKENDS[(ni / 3) % 3];
            }
            // no faults: plain history with rekeys
            cases.push(Case { spec: spec.clone(), faults: vec![], plen: 6, tops: default_tops(), stateless: ni % 2 == 0 });
            for (fi, f) in write_faults(&spec, 6).into_iter().enumerate() {
                let tops = if fi % 8 == 0 { default_tops() } else { vec![TOp::Write(true, 4), TOp::SetRecvNonce(true, 0), TOp::Write(true, 2), TOp::Write(false, 4), TOp::SetRecvNonce(false, 1), TOp::Deliver(true), TOp::Write(false, 1), TOp::JumpToEnd(true, 1), TOp::Write(true, 3), TOp::Write(true, 4), TOp::Write(true, 5), TOp::Rekey(true, true)] };
                cases.push(Case { spec: spec.clone(), faults: vec![f], plen: 6, tops, stateless: fi % 3 == 0 });
            }
        }
    }
    ctx.note(format!("{} handshake strings, {} enumerated histories", names.len(), cases.len()));
    ctx.run_list("fault_histories", &cases, false, oracle);
    let all = std::sync::Arc::new(all_hs_names());
    let seed = ctx.seed;
    ctx.run_prop(
        "random_histories",
        ctx.tier.pick(4000, 80_000),
        || {
            let all = all.clone();
            (any::<u16>(), 0usize..24, any::<u64>(), prop::collection::vec((any::<u16>(), 1u8..3), 0..4), 0usize..30, prop::collection::vec(top_strategy(), 0..25), any::<bool>())
                .prop_map(move |(ni, si, ks, picks, plen, tops, stateless)| {
                    let suites = all_suites();
                    let mut spec = SessionSpec::simple(all[pick(ni, all.len())].clone(), suites[si], mix(seed, ks));
                    spec.eph = EphMode::Rng;
                    let fl = write_faults(&spec, plen);
                    let mut faults: Vec<Fault> = Vec::new();
                    for (p, reps) in picks {
                        let mut f = fl[pick(p, fl.len())].clone();
                        f.reps = reps;
                        if matches!(f.cause, Cause::WPsk(_) | Cause::RPsk(_)) && faults.iter().any(|g| matches!(g.cause, Cause::WPsk(_) | Cause::RPsk(_))) {
                            continue;
                        }
                        faults.push(f);
                    }
                    Case { spec, faults, plen, tops, stateless }
                })
        },
        oracle,
    );
}

pub fn replay(ctx: &Ctx, sub: &str, case: &serde_json::Value, origin: &str) -> bool {
    ctx.replay_case::<Case, _>(sub, case, oracle, origin)
}
