//! C05 Stateful transport delivers in order, exactly once; rejections change nothing.

use super::c10::drive_to;
use super::common::*;
use super::PropDef;
use crate::engine::{expand, mix, Acc, CaseResult, Ctx, Fail};
use crate::instr::Backend;
use crate::sess::*;
use proptest::prelude::*;
use serde::{Deserialize, Serialize};

pub const DEF: PropDef = PropDef {
    id: "C05",
    run,
    replay,
    level: "exploration",
    rule: "model-based: a session sends K messages per direction (K=4 quick, 5 thorough), then a delivery schedule is executed; exhaustive part = ALL schedules up to length 5 (6 thorough) over the alphabet {Deliver(0..K-1), garbage, expected message into an undersized buffer, oversize message, set_receiving_nonce(message number 1)} in one direction (contains every permutation with drops and duplicates); random part = longer schedules over both directions that also use set_receiving_nonce(v) with v in sent indices, beyond, 2^64-1, a sent index plus a multiple of 2^32, a sent index with one more bit set. Long runs: 600 (thorough 1500) messages written and delivered in order from several counter bases, each accepted exactly once, with duplicates / garbage / undersized buffers / truncated copies rejected in between. Sessions rotate over all ciphers, hashes, both backends and interactive/one-way patterns. Model: one integer rn per direction; Deliver(j) with an adequate buffer is accepted iff j == rn (payload equals message j, rn += 1), everything else is rejected; after EVERY step receiving_nonce() == rn and sending_nonce() == number of writes. Non-trivial = the schedule contains a rejected delivery that is followed later by an accepted one; distinct by (config, schedule)",
    technique: "model-based testing of delivery schedules: bounded-exhaustive enumeration + proptest random schedules with shrinking",
    assumptions: &[],
    panic_is_violation: false,
    needs_refnoise: false,
};

#[derive(Clone, Copy, Debug, Serialize, Deserialize, PartialEq, Eq, Hash)]
pub enum Op {
    /// (direction r->i?, message index)
    Deliver(bool, u8),
    Garbage(bool, u8),
    SmallBuf(bool),
    Oversize(bool),
    SetNonce(bool, u64),
    /// the expected message into a buffer that is too small by k bytes (255 = empty buffer)
    SmallBufBy(bool, u8),
    /// garbage of a specific length class: 0..=15 bytes, exactly 16, exactly 65535
    GarbageLen(bool, u16),
}

#[derive(Clone, Debug, Serialize, Deserialize)]
pub struct Case {
    pub pattern: String,
    pub suite_idx: usize,
    pub backend: Backend,
    pub k: u8,
    pub ops: Vec<Op>,
    pub seed: u64,
    /// both counters of each direction start here (sender via the verif hook, receiver via
    /// set_receiving_nonce) so that the schedule runs across a counter boundary
    #[serde(default)]
    pub base: u64,
}

fn oracle(c: &Case, acc: &mut Acc) -> CaseResult {
    let suites = all_suites();
    let suite = suites[c.suite_idx % suites.len()];
    let mut spec = SessionSpec::simple(HsName { pattern: c.pattern.clone(), psks: vec![] }, suite, c.seed);
    if ring_covers(suite) {
        spec.backend_i = c.backend;
        spec.backend_r = c.backend;
    }
    let name = spec.name_string();
    let oneway = spec.pattern().is_oneway();
    let pair = drive_to(&spec, spec.n_msgs())?;
    let mut ti = pair.i.into_transport_mode().map_err(|x| Fail::setup(e(&x)))?;
    let mut tr = pair.r.into_transport_mode().map_err(|x| Fail::setup(e(&x)))?;
    if c.base != 0 {
        ti.verif_set_sending_nonce(c.base);
        tr.verif_set_sending_nonce(c.base);
        ti.set_receiving_nonce(c.base);
        tr.set_receiving_nonce(c.base);
    }
    // send K messages per direction
    let k = c.k as usize;
    let mut sent: [Vec<(Vec<u8>, Vec<u8>)>; 2] = [vec![], vec![]];
    for d in 0..2 {
        if d == 1 && oneway {
            continue;
        }
        for j in 0..k {
            // mostly small payloads; every 5th message is empty, every 7th is large
            // ... and in one session out of eight message 1 has the largest payload a transport
            // message can carry (65519 bytes, 65535 on the wire)
            let plen = if j == 1 && c.seed % 8 == 3 { 65519 } else if j % 5 == 4 { 0 } else if j % 7 == 6 { 3000 + j } else { 1 + (j * 7) % 23 };
            let payload = expand(c.seed, (d * 100 + j) as u64, plen);
            let w = if d == 0 { &mut ti } else { &mut tr };
            let m = t_write(w, &payload, payload.len() + 16).map_err(|x| Fail::setup(format!("{name}: write: {}", e(&x))))?;
            sent[d].push((payload, m));
        }
    }
    let writes = [c.base + sent[0].len() as u64, c.base + sent[1].len() as u64];
    let mut rn = [c.base; 2];
    let mut rejected_then_accepted = false;
    let mut seen_reject = [false; 2];
    let mut accepted = 0;
    for (step, op) in c.ops.iter().enumerate() {
        let d = match op {
            Op::Deliver(d, _) | Op::Garbage(d, _) | Op::SmallBuf(d) | Op::Oversize(d) | Op::SetNonce(d, _) | Op::SmallBufBy(d, _) | Op::GarbageLen(d, _) => *d as usize,
        };
        if d == 1 && oneway {
            continue;
        }
        let r = if d == 0 { &mut tr } else { &mut ti };
        let ctx = format!("{name} [{:?}] K={k} schedule {:?} step {step} ({op:?}), model rn={}", c.backend, c.ops, rn[d]);
        match op {
            Op::Deliver(_, j) => {
                let j = *j as usize % k;
                let (payload, m) = &sent[d][j];
                // the capacity of the receiver's buffer varies: exact, a few spare bytes, a tag more, ample
                let mut buf = vec![0u8; payload.len() + [3usize, 0, 1, 15, 16, 17, 64, 70000][(step + j + c.seed as usize) % 8]];
                let res = r.read_message(m, &mut buf);
                if c.base + j as u64 == rn[d] {
                    match res {
                        Ok(n) => {
                            ensure!(buf[..n] == payload[..], "{ctx}: accepted message {j} but returned a different payload");
                            rn[d] += 1;
                            accepted += 1;
                            if seen_reject[d] {
                                rejected_then_accepted = true;
                            }
                        },
                        Err(x) => fail!("{ctx}: message {j} is the next not-yet-accepted message but was rejected: {x:?}"),
                    }
                } else {
                    ensure!(res.is_err(), "{ctx}: message {j} accepted although the next expected message is {}", rn[d]);
                    seen_reject[d] = true;
                }
            },
            Op::Garbage(_, l) => {
                let m = expand(c.seed, 500 + step as u64, *l as usize);
                let mut buf = vec![0u8; 300];
                let res = r.read_message(&m, &mut buf);
                ensure!(res.is_err(), "{ctx}: {}-byte garbage accepted", l);
                seen_reject[d] = true;
            },
            Op::SmallBufBy(_, by) => {
                if rn[d] >= c.base && rn[d] - c.base < k as u64 {
                    let (payload, m) = &sent[d][(rn[d] - c.base) as usize];
                    if !payload.is_empty() {
                        let short = if *by == 255 { payload.len() } else { (*by as usize % payload.len()) + 1 };
                        let mut buf = vec![0u8; payload.len() - short];
                        let res = r.read_message(m, &mut buf);
                        ensure!(res.is_err(), "{ctx}: expected message accepted into a buffer {short} byte(s) too small");
                        seen_reject[d] = true;
                    }
                }
            },
            Op::GarbageLen(_, l) => {
                let m = expand(c.seed, 700 + step as u64, *l as usize);
                let mut buf = vec![0u8; 70000];
                let res = r.read_message(&m, &mut buf);
                ensure!(res.is_err(), "{ctx}: {}-byte garbage accepted", l);
                seen_reject[d] = true;
            },
            Op::SmallBuf(_) => {
                if rn[d] >= c.base && rn[d] - c.base < k as u64 && !sent[d][(rn[d] - c.base) as usize].0.is_empty() {
                    let (payload, m) = &sent[d][(rn[d] - c.base) as usize];
                    let mut buf = vec![0u8; payload.len() - 1];
                    let res = r.read_message(m, &mut buf);
                    ensure!(res.is_err(), "{ctx}: expected message accepted into a buffer one byte too small");
                    seen_reject[d] = true;
                }
            },
            Op::Oversize(_) => {
                let m = vec![0x41u8; 65536];
                let mut buf = vec![0u8; 70000];
                let res = r.read_message(&m, &mut buf);
                ensure!(res.is_err(), "{ctx}: 65536-byte message accepted");
                seen_reject[d] = true;
            },
            Op::SetNonce(_, v) => {
                // small values are meant relative to the base (message numbers)
                // ... and so are values of the form m * 2^32 + j with small m, j: the receiver is put
                // exactly m * 2^32 messages ahead of sent message j
                let v = if *v < 16 || ((*v >> 32) < 4 && (*v & 0xffff_ffff) < 16) { c.base.wrapping_add(*v) } else { *v };
                r.set_receiving_nonce(v);
                rn[d] = v;
            },
        }
        // invariants after every step, both endpoints
        let (ri, rr) = (ti.receiving_nonce(), tr.receiving_nonce());
        ensure!(rr == rn[0], "{name} schedule {:?} after step {step} ({op:?}): responder receiving_nonce() = {rr}, model says {}", c.ops, rn[0]);
        ensure!(ri == rn[1], "{name} schedule {:?} after step {step} ({op:?}): initiator receiving_nonce() = {ri}, model says {}", c.ops, rn[1]);
        ensure!(ti.sending_nonce() == writes[0] && tr.sending_nonce() == writes[1], "{name}: sending nonces changed by deliveries");
    }
    acc.label(format!("cipher:{}", suite.cipher.name()));
    acc.label(format!("backend:{:?}", if ring_covers(suite) { c.backend } else { Backend::Default }));
    acc.label(format!("accepted:{}", accepted.min(6)));
    acc.label(if oneway { "class:one-way" } else { "class:interactive" });
    if c.ops.iter().any(|o| matches!(o, Op::SetNonce(..))) {
        acc.label("uses_set_receiving_nonce");
    }
    if rejected_then_accepted {
        acc.nontrivial(&(name, c.backend, c.k, c.ops.clone()));
    }
    Ok(())
}


/// Long in-order runs: `n` messages written and delivered one after the other (so the COUNT of
/// accepted messages crosses 256 and 512 wherever the counters started), with a rejected delivery
/// (duplicate of the previous message, garbage, undersized buffer, truncated copy) before some of
/// them; every genuine message must be accepted exactly once, in order.
#[derive(Clone, Debug, Serialize, Deserialize)]
pub struct LongCase {
    pub pattern: String,
    pub suite_idx: usize,
    pub backend: Backend,
    pub n: usize,
    pub base: u64,
    pub seed: u64,
}

fn long_oracle(c: &LongCase, acc: &mut Acc) -> CaseResult {
    let suites = all_suites();
    let suite = suites[c.suite_idx % suites.len()];
    let mut spec = SessionSpec::simple(HsName { pattern: c.pattern.clone(), psks: vec![] }, suite, c.seed);
    if ring_covers(suite) {
        spec.backend_i = c.backend;
        spec.backend_r = c.backend;
    }
    let name = format!("{} [{:?}] long run of {} from counter {}", spec.name_string(), c.backend, c.n, c.base);
    let oneway = spec.pattern().is_oneway();
    let pair = drive_to(&spec, spec.n_msgs())?;
    let mut ti = pair.i.into_transport_mode().map_err(|x| Fail::setup(e(&x)))?;
    let mut tr = pair.r.into_transport_mode().map_err(|x| Fail::setup(e(&x)))?;
    if c.base != 0 {
        ti.verif_set_sending_nonce(c.base);
        tr.verif_set_sending_nonce(c.base);
        ti.set_receiving_nonce(c.base);
        tr.set_receiving_nonce(c.base);
    }
    let mut prev: [Option<Vec<u8>>; 2] = [None, None];
    let mut rejects = 0usize;
    for j in 0..c.n {
        for d in 0..2usize {
            if d == 1 && (oneway || j % 3 != 0) {
                continue;
            }
            let plen = [5usize, 0, 33, 1, 700][(j + d) % 5];
            let payload = expand(c.seed, (d * 100_000 + j) as u64, plen);
            let (w, r) = if d == 0 { (&mut ti, &mut tr) } else { (&mut tr, &mut ti) };
            // now and then the WRITER's receiving counter is set (glue code that copies a header
            // field before every read does that, also on the send-only side of a one-way
            // pattern): the order of what it sends must not change. Only when nothing is in
            // flight towards the writer, and to the value it already has or - one-way - anything.
            if j % 37 == 5 {
                let cur = w.receiving_nonce();
                w.set_receiving_nonce(if oneway && d == 0 { mix(c.seed, j as u64) % 1000 } else { cur });
            }
            let m = t_write(w, &payload, plen + 16).map_err(|x| Fail::setup(format!("{name}: write {j}: {}", e(&x))))?;
            let want_rn = r.receiving_nonce();
            // a rejected delivery before some of the genuine ones
            let mut buf = vec![0u8; plen + 16];
            let rej: Option<Result<usize, snow::Error>> = match mix(c.seed, j as u64) % 11 {
                0 => prev[d].as_ref().map(|p| r.read_message(p, &mut buf)),
                1 => Some(r.read_message(&expand(c.seed, 900 + j as u64, m.len()), &mut buf)),
                2 if plen > 0 => Some(r.read_message(&m, &mut buf[..plen - 1])),
                3 => Some(r.read_message(&m[..m.len() - 1], &mut buf)),
                _ => None,
            };
            // now and then a burst of consecutive rejected deliveries with no accepted one between
            if j % 200 == 150 {
                for b in 0..[70usize, 130, 260][(j / 200) % 3] {
                    let g = if b % 3 == 0 { prev[d].clone().unwrap_or_default() } else { expand(c.seed, 7000 + b as u64, 16 + b % 40) };
                    let res = r.read_message(&g, &mut buf);
                    ensure!(res.is_err(), "{name}: burst delivery {b} before message {j} accepted");
                }
                ensure!(r.receiving_nonce() == want_rn, "{name}: a burst of rejected deliveries before message {j} moved the receiving nonce {want_rn} -> {}", r.receiving_nonce());
                rejects += 1;
            }
            if let Some(res) = rej {
                ensure!(res.is_err(), "{name}: a delivery that is not the next message was accepted before message {j} (direction {d})");
                ensure!(r.receiving_nonce() == want_rn, "{name}: a rejected delivery before message {j} moved the receiving nonce {want_rn} -> {}", r.receiving_nonce());
                rejects += 1;
            }
            let n = r.read_message(&m, &mut buf).map_err(|x| Fail::new(format!("{name}: message number {j} of direction {d} (the next not-yet-accepted one) was rejected: {x:?}")))?;
            ensure!(buf[..n] == payload[..], "{name}: message {j}: payload differs");
            ensure!(r.receiving_nonce() == want_rn + 1, "{name}: receiving nonce after message {j}: {} (expected {})", r.receiving_nonce(), want_rn + 1);
            // the same message again: exactly once
            let again = r.read_message(&m, &mut buf);
            ensure!(again.is_err(), "{name}: message {j} accepted a second time");
            ensure!(r.receiving_nonce() == want_rn + 1, "{name}: duplicate of message {j} moved the receiving nonce");
            prev[d] = Some(m);
        }
    }
    acc.label(format!("long_run:{}", c.n));
    if rejects > 0 {
        acc.nontrivial(&(name, c.seed));
    }
    Ok(())
}

fn alphabet(k: u8) -> Vec<Op> {
    let mut a: Vec<Op> = (0..k).map(|j| Op::Deliver(false, j)).collect();
    a.push(Op::Garbage(false, 40));
    a.push(Op::GarbageLen(false, 7));
    a.push(Op::SmallBuf(false));
    a.push(Op::Oversize(false));
    // an explicit receiving-nonce change to message number 1: a step back or ahead, depending on
    // where the receiver is
    a.push(Op::SetNonce(false, 1));
    a
}

fn nth_schedule(mut idx: usize, alpha: &[Op], max_len: usize) -> Vec<Op> {
    // schedules ordered by length, then lexicographically
    let a = alpha.len();
    let mut len = 0;
    let mut count = 1usize;
    while idx >= count {
        idx -= count;
        len += 1;
        count *= a;
        assert!(len <= max_len);
    }
    let mut ops = vec![alpha[0]; len];
    for p in (0..len).rev() {
        ops[p] = alpha[idx % a];
        idx /= a;
    }
    ops
}

pub fn run(ctx: &Ctx) {
    let (k, max_len) = ctx.tier.pick((4u8, 5usize), (5u8, 6usize));
    let alpha = alphabet(k);
    let total: usize = (0..=max_len).map(|l| alpha.len().pow(l as u32)).sum();
    ctx.note(format!("exhaustive: all {} schedules of length <= {} over a {}-symbol alphabet on {} sent messages", total, max_len, alpha.len(), k));
    let seed = ctx.seed;
    let pats = ["NN", "N", "XX", "K", "IK"];
    {
        let alpha = alpha.clone();
        ctx.run_indexed(
            "all_schedules",
            total,
            true,
            move |i| Case {
                pattern: pats[i % pats.len()].to_string(),
                suite_idx: i % 24,
                backend: if i % 2 == 0 { Backend::Default } else { Backend::RingFirst },
                k,
                ops: nth_schedule(i, &alpha, max_len),
                seed: mix(seed, (i % 97) as u64),
                base: [0u64, 0, 253, 65533, (1 << 32) - 3][(i / 7) % 5],
            },
            oracle,
        );
    }
    {
        let mut long = Vec::new();
        let n_long = ctx.tier.pick(600usize, 1500);
        let bases = [0u64, 1, 7, 200, 65536 - 300, (1 << 32) - 280, u64::MAX - n_long as u64 - 100];
        for (i, base) in bases.iter().enumerate() {
            for rep in 0..ctx.tier.pick(2usize, 12) {
                let k = i * 12 + rep;
                long.push(LongCase {
                    pattern: pats[k % pats.len()].to_string(),
                    suite_idx: (k * 7 + 3) % 24,
                    backend: if k % 2 == 0 { Backend::RingFirst } else { Backend::Default },
                    n: n_long,
                    base: *base,
                    seed: mix(seed, 4000 + k as u64),
                });
            }
        }
        ctx.run_list("long_in_order_runs", &long, false, long_oracle);
    }
    ctx.run_prop(
        "random_schedules",
        ctx.tier.pick(20_000, 500_000),
        move || {
            let op = prop_oneof![
                8 => (any::<bool>(), 0u8..8).prop_map(|(d, j)| Op::Deliver(d, j)),
                1 => (any::<bool>(), 0u8..80).prop_map(|(d, l)| Op::Garbage(d, l)),
                1 => any::<bool>().prop_map(Op::SmallBuf),
                1 => (any::<bool>(), prop_oneof![Just(1u8), Just(15u8), Just(16u8), Just(255u8), any::<u8>()]).prop_map(|(d, k)| Op::SmallBufBy(d, k)),
                1 => (any::<bool>(), prop_oneof![4 => 0u16..16, 2 => Just(16u16), 1 => Just(17u16), 1 => Just(65535u16)]).prop_map(|(d, l)| Op::GarbageLen(d, l)),
                1 => any::<bool>().prop_map(Op::Oversize),
                2 => (any::<bool>(), prop_oneof![4 => 0u64..8, 1 => Just(u64::MAX), 1 => Just(u64::MAX - 1), 1 => any::<u64>(),
                    // a sent message number plus a multiple of 2^32 / 2^56, or with one high bit set: the
                    // receiver is then FAR from every sent message and must accept none of them
                    2 => (0u64..8, 1u64..4).prop_map(|(j, m)| (m << 32) + j), 1 => (0u64..8, 0u32..64).prop_map(|(j, b)| (j | (1u64 << b)).max(16))]).prop_map(|(d, v)| Op::SetNonce(d, v)),
            ];
            (0usize..5, 0usize..24, any::<bool>(), prop_oneof![6 => 1u8..8, 1 => 8u8..16], prop::collection::vec(op, 0..30), any::<u64>()).prop_map(move |(p, suite_idx, ring, k, ops, s)| Case {
                pattern: pats[p].to_string(),
                suite_idx,
                backend: if ring { Backend::RingFirst } else { Backend::Default },
                k,
                ops,
                seed: s,
                base: [0u64, 0, 0, 251, 65531, (1 << 16) - 1, (1 << 24) - 4, (1 << 31) - 4, (1 << 32) - 4, (1 << 48) - 4, (1 << 63) - 4, u64::MAX - 20][(s % 12) as usize],
            })
        },
        oracle,
    );
}

pub fn replay(ctx: &Ctx, sub: &str, case: &serde_json::Value, origin: &str) -> bool {
    if sub == "long_in_order_runs" {
        return ctx.replay_case::<LongCase, _>(sub, case, long_oracle, origin);
    }
    ctx.replay_case::<Case, _>(sub, case, oracle, origin)
}
