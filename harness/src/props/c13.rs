//! C13 Protocol-name parser accepts exactly the Noise name grammar (differential against an
//! independent recogniser written from the property statement).

use super::PropDef;
use crate::engine::{mix, Acc, CaseResult, Ctx, Tier};
use crate::ops::{edit_string, EDIT_ALPHABET};
use crate::refnoise as rn;
use proptest::prelude::*;
use serde::{Deserialize, Serialize};
use snow::params::{BaseChoice, CipherChoice, DHChoice, HandshakeModifier, HashChoice, NoiseParams};

pub const DEF: PropDef = PropDef {
    id: "C13",
    run,
    replay,
    level: "exploration",
    rule: "(1) the complete product of valid components: 38 patterns x every ordered duplicate-free modifier sequence of length <= 2 (thorough: <= 3) over {psk0..psk9, fallback} x {25519, 448, P256} x 3 ciphers x 4 hashes, enumerated exhaustively; (2) EVERY single-edit mutation (delete, duplicate, case flip, replace by / insert each character of an alphabet of name characters plus '_' '+' space NUL and non-ASCII) at every position of a sample of valid names; (2a) token-level edits of valid names (tokens '_', '+', 'psk', digit runs, letter runs: each duplicated, deleted, swapped with its neighbour, replaced by / preceded by every token of a 34-word vocabulary); (2a') every Unicode code point up to U+FFFF that is alphanumeric / numeric / white space (and a stride of the others; thorough: all) placed inside a psk index, a pattern name and primitive names; (2b) duplicate-free modifier lists of EVERY length 1..=257 (valid names from ~30 to ~1700 bytes, crossing 255/256/512/1024) and the same lists with one duplicate / out-of-range index / empty element, every ordered pair over psk0..psk257+fallback, two random edits; (3) random strings from a grammar-aware strategy and arbitrary Unicode; the hfs build (thorough) adds the dh+kem field and the hfs<=>kem rule. Oracle: an independent recogniser written from the statement (exactly 5 '_'-separated fields, 'Noise', longest-prefix pattern, '+'-separated non-empty duplicate-free modifiers fallback | psk<decimal u8> (| hfs), documented primitive names): parse is Ok iff the recogniser accepts; on Ok pattern, modifier list in order, dh, cipher, hash, base equal the recogniser's components and `name` is the input verbatim; on rejection the error is Error::Pattern(_). Decimal forms the statement does not settle (leading zeros, e.g. psk01) are not judged as to acceptance, but when accepted the name must still be preserved verbatim. Non-trivial = a valid name with at least one modifier, or an invalid string within one edit of a valid name; distinct by string",
    technique: "differential testing of the parser against a reference recogniser: exhaustive product enumeration + exhaustive single-edit mutation + proptest strings (+ libFuzzer target name_parse in the thorough tier)",
    assumptions: &["psk indices with leading zeros (psk01) and a leading '+' sign are outside what the statement settles; they are skipped"],
    panic_is_violation: false,
    needs_refnoise: false,
};

#[derive(Clone, Debug, PartialEq)]
pub enum RMod {
    Psk(u8),
    Fallback,
    Hfs,
}

#[derive(Clone, Debug, PartialEq)]
pub struct RName {
    pub pattern: String,
    pub mods: Vec<RMod>,
    pub dh: String,
    pub kem: Option<String>,
    pub cipher: String,
    pub hash: String,
}

pub enum Verdict {
    Accept(RName),
    Reject,
    Unspecified,
}

/// The reference recogniser.
pub fn recognise(s: &str, hfs_build: bool) -> Verdict {
    let fields: Vec<&str> = s.split('_').collect();
    if fields.len() != 5 || fields[0] != "Noise" {
        return Verdict::Reject;
    }
    let hp = fields[1];
    let names: Vec<String> = rn::all_patterns().into_iter().map(|p| p.name).collect();
    let mut best: Option<&String> = None;
    for n in &names {
        if hp.starts_with(n.as_str()) && best.map_or(true, |b| n.len() > b.len()) {
            best = Some(n);
        }
    }
    let Some(pattern) = best else { return Verdict::Reject };
    let rest = &hp[pattern.len()..];
    let mut mods: Vec<RMod> = Vec::new();
    let mut unspecified = false;
    if !rest.is_empty() {
        for m in rest.split('+') {
            let md = if m == "fallback" {
                RMod::Fallback
            } else if m == "hfs" && hfs_build {
                RMod::Hfs
            } else if let Some(d) = m.strip_prefix("psk") {
                if d.is_empty() || !d.bytes().all(|b| b.is_ascii_digit()) {
                    return Verdict::Reject;
                }
                if d.len() > 1 && d.starts_with('0') {
                    unspecified = true;
                }
                match d.parse::<u32>() {
                    Ok(v) if v <= 255 => RMod::Psk(v as u8),
                    Ok(_) => return Verdict::Reject,
                    Err(_) => {
                        // absurdly long digit strings: numerically > 255 unless all zeros
                        if d.bytes().all(|b| b == b'0') {
                            unspecified = true;
                            RMod::Psk(0)
                        } else if d.trim_start_matches('0').len() <= 3 {
                            unspecified = true;
                            match d.trim_start_matches('0').parse::<u32>() {
                                Ok(v) if v <= 255 => RMod::Psk(v as u8),
                                _ => return Verdict::Reject,
                            }
                        } else {
                            return Verdict::Reject;
                        }
                    },
                }
            } else {
                return Verdict::Reject;
            };
            if mods.contains(&md) {
                return if unspecified { Verdict::Unspecified } else { Verdict::Reject };
            }
            mods.push(md);
        }
    }
    let (dh, kem) = if hfs_build {
        match fields[2].split_once('+') {
            Some((d, k)) => (d, Some(k)),
            None => (fields[2], None),
        }
    } else {
        (fields[2], None)
    };
    if !["25519", "448", "P256"].contains(&dh) {
        return Verdict::Reject;
    }
    if let Some(k) = kem {
        if k != "Kyber1024" {
            return Verdict::Reject;
        }
    }
    if !["ChaChaPoly", "AESGCM", "XChaChaPoly"].contains(&fields[3]) {
        return Verdict::Reject;
    }
    if !["SHA256", "SHA512", "BLAKE2s", "BLAKE2b"].contains(&fields[4]) {
        return Verdict::Reject;
    }
    if hfs_build && (mods.contains(&RMod::Hfs) != kem.is_some()) {
        return Verdict::Reject;
    }
    if unspecified {
        return Verdict::Unspecified;
    }
    Verdict::Accept(RName {
        pattern: pattern.clone(),
        mods,
        dh: dh.to_string(),
        kem: kem.map(|k| k.to_string()),
        cipher: fields[3].to_string(),
        hash: fields[4].to_string(),
    })
}

fn components(p: &NoiseParams) -> RName {
    RName {
        pattern: p.handshake.pattern.as_str().to_string(),
        mods: p
            .handshake
            .modifiers
            .list
            .iter()
            .map(|m| match m {
                HandshakeModifier::Psk(n) => RMod::Psk(*n),
                HandshakeModifier::Fallback => RMod::Fallback,
                #[cfg(feature = "hfs")]
                HandshakeModifier::Hfs => RMod::Hfs,
            })
            .collect(),
        dh: match p.dh {
            DHChoice::Curve25519 => "25519",
            DHChoice::Curve448 => "448",
            DHChoice::P256 => "P256",
        }
        .to_string(),
        #[cfg(feature = "hfs")]
        kem: p.kem.map(|k| match k {
            snow::params::KemChoice::Kyber1024 => "Kyber1024".to_string(),
        }),
        #[cfg(not(feature = "hfs"))]
        kem: None,
        cipher: match p.cipher {
            CipherChoice::ChaChaPoly => "ChaChaPoly",
            CipherChoice::AESGCM => "AESGCM",
            CipherChoice::XChaChaPoly => "XChaChaPoly",
        }
        .to_string(),
        hash: match p.hash {
            HashChoice::SHA256 => "SHA256",
            HashChoice::SHA512 => "SHA512",
            HashChoice::Blake2s => "BLAKE2s",
            HashChoice::Blake2b => "BLAKE2b",
        }
        .to_string(),
    }
}

#[derive(Clone, Debug, Serialize, Deserialize)]
pub struct Case {
    pub s: String,
    /// how the string was produced (for labelling): 0 product, 1 single edit, 2 random
    pub origin: u8,
}

pub fn judge(s: &str, acc: &mut Acc, origin: u8) -> CaseResult {
    let hfs_build = cfg!(feature = "hfs");
    let got = s.parse::<NoiseParams>();
    match recognise(s, hfs_build) {
        Verdict::Unspecified => {
            // whether such a name is accepted is not judged - but IF it is accepted, the parsed
            // value must still carry the string verbatim (it is what gets hashed)
            if let Ok(p) = &got {
                ensure!(p.name == s, "'{}': accepted, but the parsed value does not preserve the name verbatim: '{}'", s.escape_debug(), p.name.escape_debug());
                acc.label("unspecified_decimal_form:accepted_name_verbatim");
            }
            acc.skip("decimal form of a psk index the statement does not settle (leading zeros)");
        },
        Verdict::Accept(want) => {
            match got {
                Err(e) => fail!("'{}' has the form Noise_<pattern><modifiers>_<dh>_<cipher>_<hash> with supported components but was rejected: {e:?}", s.escape_debug()),
                Ok(p) => {
                    let c = components(&p);
                    ensure!(c == want, "'{}': parsed components {c:?} differ from the name's components {want:?}", s.escape_debug());
                    ensure!(p.name == s, "'{}': parsed value does not preserve the name verbatim: '{}'", s.escape_debug(), p.name.escape_debug());
                    ensure!(p.base == BaseChoice::Noise, "base");
                },
            }
            acc.label(format!("valid:mods={}", want.mods.len()));
            if !want.mods.is_empty() || origin != 0 {
                acc.nontrivial(&s);
            }
        },
        Verdict::Reject => {
            match got {
                Ok(p) => fail!("'{}' is not a valid protocol name but was accepted as {:?}", s.escape_debug(), components(&p)),
                Err(snow::Error::Pattern(_)) => {},
                Err(e) => fail!("'{}' was rejected with {e:?}, expected a pattern error", s.escape_debug()),
            }
            acc.label(match origin {
                1 => "invalid:one_edit_from_valid",
                0 => "invalid:product",
                _ => "invalid:random",
            });
            if origin == 1 {
                acc.nontrivial(&s);
            }
        },
    }
    Ok(())
}

fn oracle(c: &Case, acc: &mut Acc) -> CaseResult {
    judge(&c.s, acc, c.origin)
}

/// ordered duplicate-free modifier sequences of length <= max_len over {psk0..psk9, fallback}
fn mod_sequences(max_len: usize) -> Vec<String> {
    let base: Vec<String> = (0..10).map(|n| format!("psk{n}")).chain(std::iter::once("fallback".to_string())).collect();
    let mut out = vec![String::new()];
    let mut cur: Vec<Vec<usize>> = vec![vec![]];
    for _ in 0..max_len {
        let mut next = Vec::new();
        for seq in &cur {
            for i in 0..base.len() {
                if !seq.contains(&i) {
                    let mut s = seq.clone();
                    s.push(i);
                    out.push(s.iter().map(|j| base[*j].clone()).collect::<Vec<_>>().join("+"));
                    next.push(s);
                }
            }
        }
        cur = next;
    }
    out
}

pub fn run(ctx: &Ctx) {
    let pats: Vec<String> = rn::all_patterns().into_iter().map(|p| p.name).collect();
    let mods = mod_sequences(ctx.tier.pick(2, 3));
    let mut dhs: Vec<String> = ["25519", "448", "P256"].iter().map(|s| s.to_string()).collect();
    if cfg!(feature = "hfs") {
        // in the hfs build the dh field may carry a kem; products with hfs modifiers are added below
        dhs.push("25519+Kyber1024".into());
    }
    let ciphers = ["ChaChaPoly", "AESGCM", "XChaChaPoly"];
    let hashes = ["SHA256", "SHA512", "BLAKE2s", "BLAKE2b"];
    let total = pats.len() * mods.len() * dhs.len() * 12;
    ctx.note(format!("product: {} patterns x {} modifier sequences x {} dh x 3 ciphers x 4 hashes = {}", pats.len(), mods.len(), dhs.len(), total));
    {
        let (pats, mods, dhs) = (pats.clone(), mods.clone(), dhs.clone());
        ctx.run_indexed(
            "valid_product",
            total,
            true,
            move |i| {
                let h = i % 4;
                let c = (i / 4) % 3;
                let d = (i / 12) % dhs.len();
                let m = (i / (12 * dhs.len())) % mods.len();
                let p = i / (12 * dhs.len() * mods.len());
                Case { s: format!("Noise_{}{}_{}_{}_{}", pats[p], mods[m], dhs[d], ciphers[c], hashes[h]), origin: 0 }
            },
            oracle,
        );
    }
    #[cfg(feature = "hfs")]
    {
        let mut v = Vec::new();
        for p in &pats {
            for m in ["hfs", "psk0+hfs", "hfs+psk1", "hfs+fallback", "hfs+hfs"] {
                for d in ["25519+Kyber1024", "25519", "P256+Kyber1024", "25519+Kyber512", "25519+Kyber1024+x", "+Kyber1024"] {
                    v.push(Case { s: format!("Noise_{p}{m}_{d}_ChaChaPoly_BLAKE2s"), origin: 0 });
                }
            }
        }
        ctx.run_list("hfs_product", &v, true, oracle);
    }
    // the full index range: every ordered pair over {psk0..psk255, fallback} (+ psk256.. invalid),
    // and all ordered triples over a boundary set, on a 1-letter, a 2-letter and a 4-letter pattern
    {
        let all: Vec<String> = (0..=257u32).map(|n| format!("psk{n}")).chain(std::iter::once("fallback".to_string())).collect();
        let bset = ["psk0", "psk1", "psk9", "psk10", "psk99", "psk100", "psk254", "psk255", "psk256", "fallback"];
        let n = all.len();
        let pats3 = ["X", "NK", "X1X1"];
        let pairs = n * n;
        let triples = bset.len() * bset.len() * bset.len();
        let total2 = (pairs + n + triples) * pats3.len();
        ctx.note(format!("modifier index range: {} names (all ordered pairs over psk0..psk257+fallback, singles, boundary triples, 3 patterns)", total2));
        ctx.run_indexed(
            "modifier_index_range",
            total2,
            true,
            move |i| {
                let p = pats3[i % 3];
                let j = i / 3;
                let mods = if j < pairs {
                    format!("{}+{}", all[j / n], all[j % n])
                } else if j < pairs + n {
                    all[j - pairs].clone()
                } else {
                    let t = j - pairs - n;
                    let b = bset.len();
                    format!("{}+{}+{}", bset[t / (b * b)], bset[(t / b) % b], bset[t % b])
                };
                Case { s: format!("Noise_{p}{mods}_25519_AESGCM_SHA512"), origin: 0 }
            },
            oracle,
        );
    }
    // long names: duplicate-free modifier lists of every length 1..=257 (psk indices in
    // ascending, descending and strided order, with and without `fallback`), so that valid names
    // of every total length from ~30 to ~1700 bytes occur (255/256, 512, 1024 are crossed), plus
    // the same lists with one duplicate / one out-of-range index / one empty element
    {
        let pats4 = ["N", "XX", "IK1", "K1K1"];
        let per = 257 * 3 * 2 * 4;
        let total = per * pats4.len();
        ctx.run_indexed(
            "long_modifier_lists",
            total,
            true,
            move |i| {
                let p = pats4[i % 4];
                let j = i / 4;
                let k = 1 + j % 257; // list length
                let order = (j / 257) % 3;
                let with_fb = (j / (257 * 3)) % 2 == 1;
                let defect = j / (257 * 3 * 2); // 0 none, 1 duplicate, 2 out of range, 3 empty element
                let mut idx: Vec<u32> = (0..k.min(256) as u32).collect();
                match order {
                    1 => idx.reverse(),
                    2 => idx = idx.iter().map(|x| (x * 37 + 11) % 256).collect::<std::collections::BTreeSet<_>>().into_iter().rev().collect(),
                    _ => {},
                }
                let mut mods: Vec<String> = idx.iter().map(|n| format!("psk{n}")).collect();
                if with_fb || k == 257 {
                    let at = (j * 7) % (mods.len() + 1);
                    mods.insert(at, "fallback".to_string());
                }
                match defect {
                    1 => {
                        let d = mods[(j * 5) % mods.len()].clone();
                        mods.push(d);
                    },
                    2 => {
                        let at = (j * 3) % (mods.len() + 1);
                        mods.insert(at, format!("psk{}", 256 + j % 1000));
                    },
                    3 => {
                        let at = (j * 3) % (mods.len() + 1);
                        mods.insert(at, String::new());
                    },
                    _ => {},
                }
                Case { s: format!("Noise_{p}{}_25519_ChaChaPoly_BLAKE2s", mods.join("+")), origin: 0 }
            },
            oracle,
        );
    }
    // double edits: two random single-character edits of valid names
    {
        let pats = pats.clone();
        let mods = mods.clone();
        ctx.run_prop(
            "double_edits",
            ctx.tier.pick(150_000, 2_000_000),
            move || {
                let (pats, mods) = (pats.clone(), mods.clone());
                (any::<u16>(), any::<u16>(), 0usize..36, any::<u16>(), 0u8..5, any::<u8>(), any::<u16>(), 0u8..5, any::<u8>()).prop_map(move |(pi, mi, sx, p1, k1, c1, p2, k2, c2)| {
                    let base = format!(
                        "Noise_{}{}_{}_{}_{}",
                        pats[crate::engine::pick(pi, pats.len())],
                        mods[crate::engine::pick(mi, mods.len())],
                        ["25519", "448", "P256"][sx % 3],
                        ["ChaChaPoly", "AESGCM", "XChaChaPoly"][(sx / 3) % 3],
                        ["SHA256", "SHA512", "BLAKE2s", "BLAKE2b"][(sx / 9) % 4]
                    );
                    let once = edit_string(&base, p1 as usize, k1, c1);
                    Case { s: edit_string(&once, p2 as usize, k2, c2), origin: 1 }
                })
            },
            oracle,
        );
    }
    // token-level edits: valid names are cut into tokens ('_', '+', "psk", digit runs, letter
    // runs) and every token is duplicated / deleted / swapped with its neighbour / replaced by and
    // preceded by every token of a vocabulary (exhaustive over a sample of names)
    {
        const VOCAB: [&str; 34] = [
            "Noise", "_", "+", "psk", "0", "1", "2", "9", "10", "255", "256", "fallback", "hfs", "XX", "X", "N", "K", "I", "IK", "X1X1", "25519", "448", "P", "P256", "ChaChaPoly", "AESGCM", "XChaChaPoly", "SHA", "SHA256", "BLAKE", "BLAKE2s", "s", "b", "Kyber1024",
        ];
        fn tokens(s: &str) -> Vec<String> {
            let b = s.as_bytes();
            let mut out = Vec::new();
            let mut i = 0;
            while i < b.len() {
                let start = i;
                if b[i] == b'_' || b[i] == b'+' {
                    i += 1;
                } else if s[i..].starts_with("psk") {
                    i += 3;
                } else if b[i].is_ascii_digit() {
                    while i < b.len() && b[i].is_ascii_digit() {
                        i += 1;
                    }
                } else {
                    while i < b.len() && !(b[i] == b'_' || b[i] == b'+' || b[i].is_ascii_digit() || s[i..].starts_with("psk")) {
                        i += 1;
                    }
                }
                out.push(s[start..i].to_string());
            }
            out
        }
        let n_tok_names = ctx.tier.pick(250usize, 1500);
        let mut list: Vec<Case> = Vec::new();
        for k in 0..n_tok_names {
            let x = mix(ctx.seed, 5000 + k as u64) as usize;
            let m = if k % 4 == 0 { 0 } else { x % mods.len() };
            let name = format!("Noise_{}{}_{}_{}_{}", pats[(x >> 8) % pats.len()], mods[m], dhs[(x >> 20) % dhs.len()], ciphers[(x >> 24) % 3], hashes[(x >> 28) % 4]);
            let t = tokens(&name);
            for i in 0..t.len() {
                let join = |v: &Vec<String>| v.concat();
                let mut d = t.clone();
                d.insert(i, t[i].clone());
                list.push(Case { s: join(&d), origin: 1 });
                let mut d = t.clone();
                d.remove(i);
                list.push(Case { s: join(&d), origin: 1 });
                if i + 1 < t.len() {
                    let mut d = t.clone();
                    d.swap(i, i + 1);
                    list.push(Case { s: join(&d), origin: 1 });
                }
                for v in VOCAB {
                    let mut d = t.clone();
                    d[i] = v.to_string();
                    list.push(Case { s: join(&d), origin: 1 });
                    let mut d = t.clone();
                    d.insert(i, v.to_string());
                    list.push(Case { s: join(&d), origin: 1 });
                }
            }
        }
        ctx.run_list("token_edits", &list, true, oracle);
    }
    // every code point up to U+FFFF (quick: those that are alphanumeric / numeric by Unicode's
    // definition, i.e. what `char::is_numeric`, `is_alphanumeric`, `to_digit`-style helpers could
    // mistake for digits or letters, plus every 7th other) inserted into / substituted in a psk
    // index, the pattern name and a primitive name
    {
        let mut list: Vec<Case> = Vec::new();
        for cp in 0x80u32..=0xFFFF {
            let Some(ch) = char::from_u32(cp) else { continue };
            if !(ch.is_alphanumeric() || ch.is_numeric() || ch.is_whitespace() || cp % 7 == 0 || ctx.tier == crate::engine::Tier::Thorough) {
                continue;
            }
            let num = ch.is_numeric();
            let pat = ["XX", "NK1", "N"][cp as usize % 3];
            list.push(Case { s: format!("Noise_{pat}psk{ch}_25519_ChaChaPoly_BLAKE2s"), origin: 1 });
            if num || cp % 5 == 0 {
                list.push(Case { s: format!("Noise_{pat}psk1{ch}_25519_ChaChaPoly_BLAKE2s"), origin: 1 });
                list.push(Case { s: format!("Noise_{pat}psk{ch}1_25519_AESGCM_SHA256"), origin: 1 });
                list.push(Case { s: format!("Noise_{pat}psk0+psk{ch}_25519_AESGCM_SHA256"), origin: 1 });
                list.push(Case { s: format!("Noise_{pat}_2551{ch}_AESGCM_SHA256"), origin: 1 });
                list.push(Case { s: format!("Noise_{pat}_25519_AESGCM_SHA{ch}56"), origin: 1 });
            }
            if ch.is_alphabetic() && cp % 3 == 0 {
                list.push(Case { s: format!("Noise_{ch}{pat}_25519_ChaChaPoly_SHA512"), origin: 1 });
                list.push(Case { s: format!("Noise_X{ch}_25519_ChaChaPoly_SHA512"), origin: 1 });
                list.push(Case { s: format!("Noise_{pat}_25519_ChaCha{ch}Poly_SHA512"), origin: 1 });
                list.push(Case { s: format!("Noise_{pat}{ch}sk0_25519_ChaChaPoly_SHA512"), origin: 1 });
            }
        }
        // a few beyond the BMP (mathematical digits, other scripts' digits)
        for cp in (0x1D7CEu32..=0x1D7FF).chain(0x104A0..=0x104A9).chain(0x1F100..=0x1F10C) {
            if let Some(ch) = char::from_u32(cp) {
                list.push(Case { s: format!("Noise_XXpsk{ch}_25519_ChaChaPoly_BLAKE2s"), origin: 1 });
                list.push(Case { s: format!("Noise_XXpsk1{ch}_25519_ChaChaPoly_BLAKE2s"), origin: 1 });
            }
        }
        ctx.run_list("unicode_code_points", &list, false, oracle);
    }
    // every single edit of a sample of valid names
    let n_names = ctx.tier.pick(600usize, 3000);
    let mut samples: Vec<String> = Vec::new();
    for k in 0..n_names {
        let x = mix(ctx.seed, k as u64) as usize;
        let m = if k % 3 == 0 { 0 } else { x % mods.len() };
        samples.push(format!("Noise_{}{}_{}_{}_{}", pats[(x >> 8) % pats.len()], mods[m], dhs[(x >> 20) % dhs.len()], ciphers[(x >> 24) % 3], hashes[(x >> 28) % 4]));
    }
    let per = |s: &String| (s.chars().count() + 1) * (3 + 2 * EDIT_ALPHABET.len());
    let mut offsets = Vec::new();
    let mut tot = 0usize;
    for s in &samples {
        offsets.push(tot);
        tot += per(s);
    }
    ctx.note(format!("single-edit mutations: {} valid names, {} mutated strings (every position x every edit kind x every alphabet character)", samples.len(), tot));
    {
        let samples = samples.clone();
        let na = EDIT_ALPHABET.len();
        ctx.run_indexed(
            "single_edits",
            tot,
            true,
            move |i| {
                let k = match offsets.binary_search(&i) {
                    Ok(k) => k,
                    Err(k) => k - 1,
                };
                let j = i - offsets[k];
                let s = &samples[k];
                let per_pos = 3 + 2 * na;
                let pos = j / per_pos;
                let e = j % per_pos;
                // kinds of ops::edit_string: 0 delete, 1 insert, 2 replace, 3 duplicate, 4 case flip
                let (kind, ch) = if e == 0 {
                    (0u8, 0u8)
                } else if e == 1 {
                    (3, 0)
                } else if e == 2 {
                    (4, 0)
                } else if e < 3 + na {
                    (1, (e - 3) as u8)
                } else {
                    (2, (e - 3 - na) as u8)
                };
                Case { s: edit_string(s, pos, kind, ch), origin: 1 }
            },
            oracle,
        );
    }
    ctx.run_prop(
        "random_strings",
        ctx.tier.pick(200_000, 3_000_000),
        || {
            prop_oneof![
                2 => "\\PC{0,60}",
                1 => "\\PC{60,400}",
                1 => "Noise_[NXKI1]{1,4}(psk(0|1|9|10|99|100|199|200|254|255|256|300)|fallback|\\+){0,6}_(25519|P256)_(ChaChaPoly|AESGCM)_(SHA256|BLAKE2b)",
                2 => "[Noise_XKI1NpskfalbchP2569+ASGCMHBE0-9]{0,50}",
                4 => "(Noise|noise|Nois|)_?[NXKI1]{0,5}((psk[0-9]{0,4}|fallback|hfs|pskx|\\+){0,4})_(25519|448|P256|25519\\+Kyber1024|)_(ChaChaPoly|AESGCM|XChaChaPoly|chachapoly)_(SHA256|SHA512|BLAKE2s|BLAKE2b|SHA1)(_.{0,3})?",
                3 => "Noise_[NXKI1]{1,4}(psk[0-9]{1,3}(\\+(psk[0-9]{1,3}|fallback)){0,3})?_(25519|448|P256)_(ChaChaPoly|AESGCM|XChaChaPoly)_(SHA256|SHA512|BLAKE2s|BLAKE2b)",
            ]
            .prop_map(|s| Case { s, origin: 2 })
        },
        oracle,
    );
    let _ = Tier::Quick;
}

pub fn replay(ctx: &Ctx, sub: &str, case: &serde_json::Value, origin: &str) -> bool {
    if sub == "fuzz_bytes" {
        let bytes: Vec<u8> = serde_json::from_value(case.clone()).unwrap_or_default();
        let Ok(s) = String::from_utf8(bytes) else { return true };
        let c = serde_json::to_value(Case { s, origin: 2 }).unwrap();
        return ctx.replay_case::<Case, _>("random_strings", &c, oracle, origin);
    }
    ctx.replay_case::<Case, _>(sub, case, oracle, origin)
}
