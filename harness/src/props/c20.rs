//! C20 Crypto backends are interchangeable and fallback resolution is correct.

use super::common::*;
use super::PropDef;
use crate::engine::{mix, pick, Acc, CaseResult, Ctx, Fail};
use crate::instr::{Backend, PartialResolver, BACKENDS};
use crate::refcrypto::{CipherKind, DhKind, HashKind};
use crate::refnoise::Suite;
use crate::sess::*;
use proptest::prelude::*;
use rand_core::RngCore;
use serde::{Deserialize, Serialize};
use snow::params::{CipherChoice, DHChoice, HashChoice};
use snow::resolvers::{CryptoResolver, FallbackResolver};

pub const DEF: PropDef = PropDef {
    id: "C20",
    run,
    replay,
    level: "exploration",
    rule: "(1) differential across backends: for every handshake string, on a suite both backends support (25519 x {ChaChaPoly, AESGCM} x {SHA256, SHA512}) and on one of all 24 suites (where ring provides only some of the primitives - XChaChaPoly, BLAKE2, P-256 come from the fallback member), the session transcript (all handshake messages with payloads, handshake hashes after every message, transport messages in both directions before and after synchronised rekeys (automatic; manual keys, automatic, the same manual keys again), stateless messages at high nonces) is computed for all 9 assignments of {default, ring-over-default fallback, default-over-ring fallback} to the two endpoints; all 9 transcripts must be byte-identical and every message must be accepted by the peer. (2) the complete fallback table: primitive kind in {rng, dh, hash, cipher} x every choice of that kind x availability in (preferred, fallback) in {00,01,10,11} using marker resolvers whose primitives carry a tag: the FallbackResolver yields Some iff at least one member does, and the tag shows the preferred member won; (3) nested fallbacks: ALL 16^3 availability vectors of three marker resolvers A, B, C combined as Fallback(Fallback(A,B),C) and Fallback(A,Fallback(B,C)): every kind and choice resolves to the first member in order A, B, C that provides it. Transport lengths in (1) include, per session, one entry of a ladder around 4 KiB / 9000 / 12 KiB / 16 KiB / 32 KiB / the maximum. Non-trivial = an assignment in which at least one endpoint uses ring primitives, or a table row; distinct by (name, suite, inputs) / row",
    technique: "differential testing across crypto backends (transcript equality over all backend assignments) + exhaustive enumeration of the fallback-resolution table with marker resolvers",
    assumptions: &[],
    panic_is_violation: false,
    needs_refnoise: false,
};

#[derive(Clone, Debug, Serialize, Deserialize)]
pub enum Case {
    Transcript { spec: SessionSpec, payload_classes: Vec<u8>, fill: u64 },
    /// kind 0 rng, 1 dh, 2 hash, 3 cipher; choice index; availability bits (preferred, fallback)
    Table { kind: u8, choice: u8, preferred: bool, fallback: bool },
    /// three marker resolvers A, B, C (bit k of avail[m] = member m provides kind k) combined as
    /// Fallback(Fallback(A, B), C) (`left` = true) or Fallback(A, Fallback(B, C)); all kinds and
    /// all choices are queried
    Nested { avail: [u8; 3], left: bool },
}

#[derive(PartialEq, Debug)]
struct Transcript {
    hs: Vec<Vec<u8>>,
    hashes: Vec<Vec<u8>>,
    transport: Vec<Vec<u8>>,
}

fn transcript(spec: &SessionSpec, payload_classes: &[u8], fill: u64) -> Result<Transcript, Fail> {
    let name = format!("{} [{:?}/{:?}]", spec.name_string(), spec.backend_i, spec.backend_r);
    let pair = build_pair(spec, None)?;
    let (mut hi, mut hr) = (pair.i, pair.r);
    let lay = spec.layouts();
    let mut t = Transcript { hs: vec![], hashes: vec![], transport: vec![] };
    for idx in 0..spec.n_msgs() {
        let max = 65535 - lay[idx].overhead;
        let plen = len_class(payload_classes[idx % payload_classes.len()], max, fill.wrapping_add(idx as u64));
        let payload = spec.payload(idx, plen);
        let (w, r) = if idx % 2 == 0 { (&mut hi, &mut hr) } else { (&mut hr, &mut hi) };
        let m = hs_write(w, &payload, 65535 + 16).map_err(|x| Fail::new(format!("{name}: write {idx}: {}", e(&x))))?;
        let slack = [65535usize, plen, plen + 1, plen + 15, plen + 16][(idx + plen) % 5];
        let p = hs_read(r, &m, slack).map_err(|x| Fail::new(format!("{name}: endpoints with these backends do not interoperate: read {idx} (payload {plen}, read buffer {slack}): {}", e(&x))))?;
        if p != payload {
            return Err(Fail::new(format!("{name}: payload {idx} differs")));
        }
        t.hs.push(m);
        t.hashes.push(hi.get_handshake_hash().to_vec());
        t.hashes.push(hr.get_handshake_hash().to_vec());
    }
    let oneway = spec.pattern().is_oneway();
    // stateful transport incl. a synchronised rekey
    let mut ti = hi.into_transport_mode().map_err(|x| Fail::setup(e(&x)))?;
    let mut tr = hr.into_transport_mode().map_err(|x| Fail::setup(e(&x)))?;
    for round in 0..4 {
        for i_sends in [true, false] {
            if oneway && !i_sends {
                continue;
            }
            // lengths: the fixed classes plus, per session, one entry of a ladder around page /
            // scratch-buffer sized boundaries
            const LADDER: [usize; 16] = [1, 15, 16, 31, 4080, 4096, 8176, 9000, 12272, 12288, 16384, 32752, 32768, 40000, 65503, 65518];
            let ladder = LADDER[(fill as usize).wrapping_add(spec.key_seed as usize) % 16];
            let payload = spec.payload(50 + round, [0usize, 17, ladder, 65519][round]);
            let (w, r) = if i_sends { (&mut ti, &mut tr) } else { (&mut tr, &mut ti) };
            let m = t_write(w, &payload, payload.len() + 16).map_err(|x| Fail::new(format!("{name}: transport write: {}", e(&x))))?;
            // the receiver's buffer is exact, slightly larger (1, 15, 16 spare bytes) or ample
            let slack = [0usize, 1, 15, 16, 40000][(round + i_sends as usize + payload.len()) % 5];
            let p = t_read(r, &m, payload.len() + slack).map_err(|x| Fail::new(format!("{name}: endpoints with these backends do not interoperate in transport mode (round {round}, read buffer = payload + {slack}): {}", e(&x))))?;
            if p != payload {
                return Err(Fail::new(format!("{name}: transport payload differs")));
            }
            t.transport.push(m);
        }
        if round == 1 || round == 2 {
            ti.rekey_outgoing();
            tr.rekey_incoming();
            if !oneway {
                tr.rekey_outgoing();
                ti.rekey_incoming();
            }
        }
    }
    // manual keys, then automatic rekeys, then the SAME manual keys again (a backend that keeps
    // per-key state across set()/rekey() must end up where the other backend does)
    {
        let (k1, k2) = (crate::engine::expand32(spec.key_seed, 6001), crate::engine::expand32(spec.key_seed, 6002));
        for phase in 0..3 {
            match phase {
                0 | 2 => {
                    ti.rekey_manually(Some(&k1), Some(&k2));
                    tr.rekey_manually(Some(&k1), Some(&k2));
                },
                _ => {
                    ti.rekey_outgoing();
                    tr.rekey_incoming();
                    if !oneway {
                        tr.rekey_outgoing();
                        ti.rekey_incoming();
                    }
                },
            }
            for i_sends in [true, false] {
                if oneway && !i_sends {
                    continue;
                }
                let payload = spec.payload(60 + phase, 11 + phase);
                let (w, r) = if i_sends { (&mut ti, &mut tr) } else { (&mut tr, &mut ti) };
                let m = t_write(w, &payload, payload.len() + 16).map_err(|x| Fail::new(format!("{name}: transport write after rekey phase {phase}: {}", e(&x))))?;
                let p = t_read(r, &m, payload.len()).map_err(|x| Fail::new(format!("{name}: endpoints with these backends lose sync after manual keys / automatic rekey / the same manual keys again (phase {phase}): {}", e(&x))))?;
                if p != payload {
                    return Err(Fail::new(format!("{name}: transport payload differs after rekey phase {phase}")));
                }
                t.transport.push(m);
            }
        }
    }
    // stateless at high nonces (fresh, identically keyed session)
    let pair = build_pair(spec, None)?;
    let (mut hi, mut hr) = (pair.i, pair.r);
    for idx in 0..spec.n_msgs() {
        let (w, r) = if idx % 2 == 0 { (&mut hi, &mut hr) } else { (&mut hr, &mut hi) };
        let m = hs_write(w, b"", 65535).map_err(|x| Fail::setup(e(&x)))?;
        hs_read(r, &m, 65535).map_err(|x| Fail::setup(e(&x)))?;
    }
    let si = hi.into_stateless_transport_mode().map_err(|x| Fail::setup(e(&x)))?;
    let sr = hr.into_stateless_transport_mode().map_err(|x| Fail::setup(e(&x)))?;
    for n in [0u64, 0x1_0000_0001, u64::MAX - 1] {
        let payload = spec.payload(70, 21);
        let m = sl_write(&si, n, &payload, 40).map_err(|x| Fail::setup(e(&x)))?;
        let p = sl_read(&sr, n, &m, 40).map_err(|x| Fail::new(format!("{name}: stateless interop at nonce {n}: {}", e(&x))))?;
        if p != payload {
            return Err(Fail::new(format!("{name}: stateless payload")));
        }
        t.transport.push(m);
    }
    Ok(t)
}

fn oracle(c: &Case, acc: &mut Acc) -> CaseResult {
    match c {
        Case::Transcript { spec, payload_classes, fill } => {
            // suites ring covers completely, and suites it covers only in part (XChaChaPoly,
            // BLAKE2, P-256): the fallback combinations must then hand out the default
            // backend's primitive for the missing piece and nothing else changes on the wire
            let mut base_spec = spec.clone();
            base_spec.backend_i = Backend::Default;
            base_spec.backend_r = Backend::Default;
            let base = transcript(&base_spec, payload_classes, *fill).map_err(|f| Fail::setup(format!("default/default reference session failed: {}", f.msg)))?;
            for bi in BACKENDS {
                for br in BACKENDS {
                    if bi == Backend::Default && br == Backend::Default {
                        continue;
                    }
                    let mut s = spec.clone();
                    s.backend_i = bi;
                    s.backend_r = br;
                    let t = transcript(&s, payload_classes, *fill)?;
                    for (k, (a, b)) in t.hs.iter().zip(base.hs.iter()).enumerate() {
                        ensure!(a == b, "{}: handshake message {k} with backends {bi:?}/{br:?} differs from the default/default session at byte {}\n {}\n {}", spec.name_string(), first_diff(a, b), hexs(a), hexs(b));
                    }
                    ensure!(t.hashes == base.hashes, "{}: handshake hashes with backends {bi:?}/{br:?} differ from default/default", spec.name_string());
                    for (k, (a, b)) in t.transport.iter().zip(base.transport.iter()).enumerate() {
                        ensure!(a == b, "{}: transport message {k} with backends {bi:?}/{br:?} differs from the default/default session at byte {}", spec.name_string(), first_diff(a, b));
                    }
                    ensure!(t.transport.len() == base.transport.len() && t.hs.len() == base.hs.len(), "transcript shape");
                    acc.label(format!("assignment:{bi:?}/{br:?}"));
                }
            }
            acc.label(format!("suite:{}", suite_string(spec.suite)));
            acc.nontrivial(&(spec.name_string(), spec.key_seed, payload_classes.clone()));
        },
        Case::Nested { avail, left } => {
            let mk = |m: usize, tag: &'static str| -> snow::resolvers::BoxedCryptoResolver {
                let a = avail[m];
                Box::new(PartialResolver { provides: [a & 1 != 0, a & 2 != 0, a & 4 != 0, a & 8 != 0], tag })
            };
            let r = if *left {
                FallbackResolver::new(Box::new(FallbackResolver::new(mk(0, "A"), mk(1, "B"))), mk(2, "C"))
            } else {
                FallbackResolver::new(mk(0, "A"), Box::new(FallbackResolver::new(mk(1, "B"), mk(2, "C"))))
            };
            let want = |kind: usize, exists: bool| -> Option<&'static str> {
                if !exists {
                    return None;
                }
                (0..3).find(|m| avail[*m] & (1 << kind) != 0).map(|m| ["A", "B", "C"][m])
            };
            let got_rng = r.resolve_rng().map(|mut g| {
                let mut b = [0u8; 4];
                g.fill_bytes(&mut b);
                (b[0] as char).to_string()
            });
            ensure!(got_rng.as_deref() == want(0, true), "nested fallback {avail:?} left={left}: rng resolved to {got_rng:?}, expected {:?} (first member in order A, B, C that provides it)", want(0, true));
            for ch in [DHChoice::Curve25519, DHChoice::Curve448, DHChoice::P256] {
                let got = r.resolve_dh(&ch).map(|d| d.name().to_string());
                let w = want(1, ch != DHChoice::Curve448);
                ensure!(got.as_deref() == w, "nested fallback {avail:?} left={left}: dh {ch:?} resolved to {got:?}, expected {w:?}");
            }
            for ch in [HashChoice::SHA256, HashChoice::SHA512, HashChoice::Blake2s, HashChoice::Blake2b] {
                let got = r.resolve_hash(&ch).map(|d| d.name().to_string());
                ensure!(got.as_deref() == want(2, true), "nested fallback {avail:?} left={left}: hash {ch:?} resolved to {got:?}, expected {:?}", want(2, true));
            }
            for ch in [CipherChoice::ChaChaPoly, CipherChoice::AESGCM, CipherChoice::XChaChaPoly] {
                let got = r.resolve_cipher(&ch).map(|d| d.name().to_string());
                ensure!(got.as_deref() == want(3, true), "nested fallback {avail:?} left={left}: cipher {ch:?} resolved to {got:?}, expected {:?}", want(3, true));
            }
            acc.label(format!("nested:{}", if *left { "left" } else { "right" }));
            acc.nontrivial(&format!("{c:?}"));
        },
        Case::Table { kind, choice, preferred, fallback } => {
            let mut pa = [false; 4];
            let mut fa = [false; 4];
            pa[*kind as usize] = *preferred;
            fa[*kind as usize] = *fallback;
            let r = FallbackResolver::new(Box::new(PartialResolver { provides: pa, tag: "P" }), Box::new(PartialResolver { provides: fa, tag: "F" }));
            let dhs = [DHChoice::Curve25519, DHChoice::Curve448, DHChoice::P256];
            let hashes = [HashChoice::SHA256, HashChoice::SHA512, HashChoice::Blake2s, HashChoice::Blake2b];
            let ciphers = [CipherChoice::ChaChaPoly, CipherChoice::AESGCM, CipherChoice::XChaChaPoly];
            // does the underlying implementation exist at all?
            let (got, exists): (Option<String>, bool) = match kind {
                0 => (
                    r.resolve_rng().map(|mut g| {
                        let mut b = [0u8; 4];
                        g.fill_bytes(&mut b);
                        (b[0] as char).to_string()
                    }),
                    true,
                ),
                1 => {
                    let ch = dhs[*choice as usize % 3];
                    (r.resolve_dh(&ch).map(|d| d.name().to_string()), ch != DHChoice::Curve448)
                },
                2 => (r.resolve_hash(&hashes[*choice as usize % 4]).map(|h| h.name().to_string()), true),
                _ => (r.resolve_cipher(&ciphers[*choice as usize % 3]).map(|c| c.name().to_string()), true),
            };
            let want: Option<&str> = if !exists {
                None
            } else if *preferred {
                Some("P")
            } else if *fallback {
                Some("F")
            } else {
                None
            };
            ensure!(
                got.as_deref() == want,
                "fallback resolution: kind {kind} choice {choice}, preferred provides={preferred}, fallback provides={fallback}: resolver returned {got:?}, expected {want:?} (P = preferred member, F = fallback member)"
            );
            // the other kinds are not provided by either member: must be None
            let others_none = match kind {
                0 => r.resolve_hash(&HashChoice::SHA256).is_none() && r.resolve_cipher(&CipherChoice::AESGCM).is_none() && r.resolve_dh(&DHChoice::Curve25519).is_none(),
                _ => r.resolve_rng().is_none(),
            };
            ensure!(others_none, "fallback resolver produced a primitive none of its members provides");
            acc.label(format!("table:kind{kind}:{}{}", *preferred as u8, *fallback as u8));
            acc.nontrivial(&format!("{c:?}"));
        },
    }
    Ok(())
}

fn shared_suites() -> Vec<Suite> {
    let mut v = Vec::new();
    for cipher in [CipherKind::ChaChaPoly, CipherKind::AesGcm] {
        for hash in [HashKind::Sha256, HashKind::Sha512] {
            v.push(Suite { dh: DhKind::X25519, cipher, hash });
        }
    }
    v
}

pub fn run(ctx: &Ctx) {
    let mut table = Vec::new();
    for (kind, n) in [(0u8, 1u8), (1, 3), (2, 4), (3, 3)] {
        for choice in 0..n {
            for a in 0..4u8 {
                table.push(Case::Table { kind, choice, preferred: a & 2 != 0, fallback: a & 1 != 0 });
            }
        }
    }
    for a in 0..16u8 {
        for b in 0..16u8 {
            for c in 0..16u8 {
                for left in [true, false] {
                    table.push(Case::Nested { avail: [a, b, c], left });
                }
            }
        }
    }
    ctx.run_list("fallback_table", &table, true, oracle);
    let names = all_hs_names();
    let suites = shared_suites();
    let mut cases = Vec::new();
    for (ni, hs) in names.iter().enumerate() {
        for k in 0..ctx.tier.pick(2usize, 4) {
            // k = 0: a suite both backends implement; k >= 1: any of the 24 suites
            let suite = if k == 0 { suites[ni % 4] } else { all_suites()[(ni * 7 + k * 5) % 24] };
            let mut spec = SessionSpec::simple(hs.clone(), suite, mix(ctx.seed, (ni * 4 + k) as u64));
            spec.eph = if (ni + k) % 2 == 0 { EphMode::Rng } else { EphMode::Fixed };
            spec.prologue_len = [0usize, 33][(ni + k) % 2];
            cases.push(Case::Transcript { spec, payload_classes: vec![(ni % 15) as u8, 3, 0], fill: ni as u64 });
        }
    }
    ctx.run_list("all_names_all_assignments", &cases, false, oracle);
    let names = std::sync::Arc::new(names);
    ctx.run_prop(
        "random_inputs",
        ctx.tier.pick(600, 8000),
        || {
            let names = names.clone();
            (any::<u16>(), 0usize..4, any::<u64>(), prop::collection::vec(0u8..20, 1..4), any::<u64>(), 0usize..200, any::<bool>()).prop_map(move |(ni, si, seed, payload_classes, fill, pl, eph)| {
                let suite = if seed % 3 == 0 { all_suites()[(seed / 3 % 24) as usize] } else { shared_suites()[si] };
                let mut spec = SessionSpec::simple(names[pick(ni, names.len())].clone(), suite, seed);
                spec.prologue_len = pl;
                spec.eph = if eph { EphMode::Rng } else { EphMode::Fixed };
                Case::Transcript { spec, payload_classes, fill }
            })
        },
        oracle,
    );
}

pub fn replay(ctx: &Ctx, sub: &str, case: &serde_json::Value, origin: &str) -> bool {
    ctx.replay_case::<Case, _>(sub, case, oracle, origin)
}
