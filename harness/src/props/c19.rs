//! C19 A rejected message never leaks decrypted plaintext to the caller.

use super::c10::drive_to;
use super::common::*;
use super::PropDef;
use crate::engine::{expand, mix, Acc, CaseResult, Ctx, Fail};
use crate::instr::Backend;
use crate::sess::*;
use proptest::prelude::*;
use serde::{Deserialize, Serialize};
use std::collections::HashSet;

pub const DEF: PropDef = PropDef {
    id: "C19",
    run,
    replay,
    level: "exploration",
    rule: "cases = (cipher x hash x DH suite, backend default / ring-first, read path in {handshake payload of message i of NN/XX/IK/N/KK/XXpsk3/NNpsk0 and of the deferred patterns NX1/XX1/X1N/IX1/KX1/X1X1/K1K1/I1K1psk2 (payload not the first ciphertext under its key), stateful transport, stateless transport}, high-entropy plaintext of 32..65000 bytes (classes 32..4096, 16384, 32767/32768, 40000, 65000), alteration that keeps the key correct: one bit of the tag, one byte of the body, last byte dropped, or (handshake) the associated data only - an earlier unauthenticated payload altered so that h differs while the key does not -, caller's output buffer pre-filled with a pattern and sized exact / +1 / = message length / larger / larger than 65535 / 128 KiB). Oracle: the read returns Err and afterwards NO 8-byte window of the genuine plaintext occurs anywhere in the caller's buffer and no position-aligned run of 6 or more plaintext bytes either (a leaked tail shorter than 8 bytes) (decrypt-then-verify or copy-before-check would put it there; chance coincidence 2^-64 per window). The unaltered message is then read successfully (control). Non-trivial = rejected read with the correct key in place; distinct by full case",
    technique: "invariant check on the caller-visible buffer after injected authentication failures (enumeration over paths x backends x buffer sizes + proptest)",
    assumptions: &["only alterations that leave the decryption key correct are generated - with a wrong key no implementation can produce the plaintext"],
    panic_is_violation: false,
    needs_refnoise: false,
};

#[derive(Clone, Debug, Serialize, Deserialize, PartialEq, Eq, Hash)]
pub enum Path {
    /// handshake payload of message idx of the pattern
    Hs(String, Vec<u8>, usize),
    Stateful,
    Stateless,
}

#[derive(Clone, Copy, Debug, Serialize, Deserialize, PartialEq, Eq, Hash)]
pub enum Alter {
    TagBit(u8),
    BodyByte(u16),
    DropLast,
    /// associated data only (handshake): earlier unauthenticated payload altered
    Ad,
    /// bytes appended after the tag (the key and nonce stay right, the body is still the plaintext's)
    Extend(u8),
    /// the message is cut so that only k (0..=15) bytes of the encrypted payload field remain
    /// (earlier fields, e.g. an encrypted static key, stay whole)
    CutPayloadField(u8),
}

#[derive(Clone, Debug, Serialize, Deserialize)]
pub struct Case {
    pub path: Path,
    pub suite_idx: usize,
    pub backend: Backend,
    pub plen: usize,
    pub alter: Alter,
    /// 0 exact, 1 +1, 2 = message length, 3 larger, 4 = 65535, 5 = 2 x message length + 7
    pub bufsize: u8,
    pub seed: u64,
    /// deliver the altered message this many extra times (the buffer is checked after each)
    #[serde(default)]
    pub repeat: u8,
    /// transport paths: a synchronised rekey of the direction before the message is written
    #[serde(default)]
    pub rekey_first: bool,
}

fn leaks(buf: &[u8], plain: &[u8]) -> Option<(usize, usize)> {
    if plain.len() < 8 {
        return None;
    }
    // position-aligned fragments of 6 bytes or more (in-place decryption leaves plaintext where
    // it would have been returned; catches a leaked tail shorter than 8 bytes; the pre-fill
    // pattern never equals 6 bytes of a high-entropy plaintext except with chance 2^-48)
    let m = buf.len().min(plain.len());
    let mut run = 0usize;
    for i in 0..m {
        if buf[i] == plain[i] {
            run += 1;
            if run >= 6 {
                return Some((i + 1 - run, i + 1 - run));
            }
        } else {
            run = 0;
        }
    }
    let windows: HashSet<&[u8]> = plain.windows(8).collect();
    for (i, w) in buf.windows(8).enumerate() {
        if windows.contains(w) {
            let j = plain.windows(8).position(|x| x == w).unwrap();
            return Some((i, j));
        }
    }
    None
}

fn oracle(c: &Case, acc: &mut Acc) -> CaseResult {
    let suites = all_suites();
    let suite = suites[c.suite_idx % suites.len()];
    let plain = expand(c.seed, 77, c.plen.max(8));
    let prefill = |n: usize| -> Vec<u8> { (0..n).map(|i| 0xC0 | (i as u8 & 0x0f)).collect() };
    let bufsize = |msg_len: usize| match c.bufsize % 8 {
        0 => plain.len(),
        1 => plain.len() + 1,
        2 => msg_len,
        3 => msg_len + 100,
        4 => 65535.max(plain.len()),
        5 => 2 * msg_len + 7,
        6 => 65536 + 4096,
        _ => 2 * 65536 + 1,
    };
    let alter_msg = |msg: &mut Vec<u8>, payload_off: usize| match c.alter {
        Alter::TagBit(b) => {
            let l = msg.len();
            msg[l - 16 + (b as usize % 16)] ^= 1 << (b % 8);
        },
        Alter::BodyByte(p) => {
            let i = payload_off + (p as usize % plain.len());
            msg[i] ^= 0x40;
        },
        Alter::DropLast => {
            msg.pop();
        },
        Alter::Ad => {},
        Alter::CutPayloadField(k) => {
            msg.truncate(payload_off + (k as usize % 16));
        },
        Alter::Extend(n) => {
            if msg.len() + (n as usize % 40) + 1 <= 65535 {
                msg.extend(std::iter::repeat(0x3c).take(n as usize % 40 + 1));
            } else {
                let l = msg.len();
                msg[l - 1] ^= 2;
            }
        },
    };
    let what;
    match &c.path {
        Path::Hs(pat, psks, idx) => {
            let mut spec = SessionSpec::simple(HsName { pattern: pat.clone(), psks: psks.clone() }, suite, c.seed);
            if ring_covers(suite) {
                spec.backend_i = c.backend;
                spec.backend_r = c.backend;
            }
            what = format!("{} [{:?}] handshake message {idx} {:?} buffer {}", spec.name_string(), c.backend, c.alter, c.bufsize);
            let lay = spec.layouts();
            if !lay[*idx].payload_encrypted {
                acc.skip("payload of this message is not encrypted");
                return Ok(());
            }
            // run two copies: one for the attack, one as the control
            for attack in [true, false] {
                let mut pair = build_pair(&spec, None)?;
                let mut ad_altered = false;
                for k in 0..*idx {
                    let (w, r) = if k % 2 == 0 { (&mut pair.i, &mut pair.r) } else { (&mut pair.r, &mut pair.i) };
                    let mut m = hs_write(w, b"earlier-payload", 65535).map_err(|x| Fail::setup(format!("{what}: prefix write: {}", e(&x))))?;
                    if attack && c.alter == Alter::Ad && k + 1 == *idx && !lay[k].payload_encrypted && !ad_altered {
                        // unauthenticated payload of an earlier message: changes h only
                        let l = m.len();
                        m[l - 1] ^= 1;
                        ad_altered = true;
                    }
                    hs_read(r, &m, 65535).map_err(|x| Fail::setup(format!("{what}: prefix read {k}: {}", e(&x))))?;
                }
                if attack && c.alter == Alter::Ad && !ad_altered {
                    acc.skip("no earlier unauthenticated payload to alter (AD-only alteration not constructible)");
                    return Ok(());
                }
                let (w, r) = if idx % 2 == 0 { (&mut pair.i, &mut pair.r) } else { (&mut pair.r, &mut pair.i) };
                // an encrypted static-key field of this message is decrypted plaintext of the message too
                let secret_s: Option<Vec<u8>> = lay[*idx].fields.iter().find(|f| f.kind == crate::refnoise::FieldKind::S && f.encrypted).map(|_| spec.s_pub(idx % 2 == 0));
                let mut msg = hs_write(w, &plain, 65535).map_err(|x| Fail::setup(format!("{what}: write: {}", e(&x))))?;
                let payload_off = lay[*idx].overhead - 16;
                if attack {
                    alter_msg(&mut msg, payload_off);
                }
                let mut buf = prefill(bufsize(msg.len()));
                let res = r.read_message(&msg, &mut buf);
                if attack {
                    if res.is_ok() {
                        // acceptance of an altered message is C03's business; nothing was rejected
                        return Err(Fail::setup(format!("{what}: altered message accepted")));
                    }
                    if let Some((i, j)) = leaks(&buf, &plain) {
                        fail!("{what}: after the rejected read the caller's buffer holds decrypted plaintext: buffer[{i}..{}] == plaintext[{j}..{}]", i + 8, j + 8);
                    }
                    if let Some(sk) = &secret_s {
                        if let Some((i, j)) = leaks(&buf, sk) {
                            fail!("{what}: after the rejected read the caller's buffer holds bytes of the message's decrypted static-key field: buffer[{i}..{}] == s[{j}..{}]", i + 8, j + 8);
                        }
                        acc.label("encrypted_static_field_checked");
                    }
                    for rep in 0..c.repeat % 3 {
                        let mut buf = prefill(bufsize(msg.len()));
                        let res = r.read_message(&msg, &mut buf);
                        if res.is_ok() {
                            return Err(Fail::setup(format!("{what}: altered message accepted on delivery {}", rep + 2)));
                        }
                        if let Some((i, j)) = leaks(&buf, &plain) {
                            fail!("{what}: after delivery {} of the rejected message the caller's buffer holds decrypted plaintext: buffer[{i}..{}] == plaintext[{j}..{}]", rep + 2, i + 8, j + 8);
                        }
                    }
                } else {
                    let n = res.map_err(|x| Fail::setup(format!("{what}: control read of the genuine message failed (an honest read failing is not this property's business): {}", e(&x))))?;
                    ensure!(buf[..n] == plain[..], "{what}: control payload");
                }
            }
        },
        Path::Stateful | Path::Stateless => {
            let mut spec = SessionSpec::simple(HsName { pattern: "NN".into(), psks: vec![] }, suite, c.seed);
            if ring_covers(suite) {
                spec.backend_i = c.backend;
                spec.backend_r = c.backend;
            }
            what = format!("{} [{:?}] {:?} {:?} buffer {}", spec.name_string(), c.backend, c.path, c.alter, c.bufsize);
            if c.alter == Alter::Ad {
                acc.skip("transport messages have no associated data");
                return Ok(());
            }
            let pair = drive_to(&spec, 2)?;
            if c.path == Path::Stateful {
                let mut ti = pair.i.into_transport_mode().map_err(|x| Fail::setup(e(&x)))?;
                let mut tr = pair.r.into_transport_mode().map_err(|x| Fail::setup(e(&x)))?;
                if c.rekey_first {
                    ti.rekey_outgoing();
                    tr.rekey_incoming();
                }
                // the message number: 0, or both counters moved to a large value first
                let base = match c.seed % 5 {
                    0 | 1 => 0,
                    2 => (1u64 << 32) + (c.seed >> 40),
                    3 => (1u64 << 63) | (c.seed >> 8),
                    _ => u64::MAX - 2,
                };
                if base != 0 {
                    ti.verif_set_sending_nonce(base);
                    tr.set_receiving_nonce(base);
                    acc.label("stateful:large_message_number");
                }
                let genuine = t_write(&mut ti, &plain, plain.len() + 16).map_err(|x| Fail::setup(e(&x)))?;
                let mut msg = genuine.clone();
                alter_msg(&mut msg, 0);
                for rep in 0..1 + c.repeat % 3 {
                    let mut buf = prefill(bufsize(msg.len()));
                    let res = tr.read_message(&msg, &mut buf);
                    if res.is_ok() {
                        // acceptance of an altered message is C03/C04's business; nothing was rejected, so
                        // there is nothing to judge here
                        return Err(Fail::setup(format!("{what}: altered message accepted (delivery {})", rep + 1)));
                    }
                    if let Some((i, j)) = leaks(&buf, &plain) {
                        fail!("{what}: after rejected delivery {} the caller's buffer holds decrypted plaintext: buffer[{i}..{}] == plaintext[{j}..{}]", rep + 1, i + 8, j + 8);
                    }
                }
                let p = t_read(&mut tr, &genuine, plain.len()).map_err(|x| Fail::setup(format!("{what}: control read of the genuine message failed (an honest read failing is not this property's business): {}", e(&x))))?;
                ensure!(p == plain, "{what}: control payload");
            } else {
                let mut ti = pair.i.into_stateless_transport_mode().map_err(|x| Fail::setup(e(&x)))?;
                let mut tr = pair.r.into_stateless_transport_mode().map_err(|x| Fail::setup(e(&x)))?;
                if c.rekey_first {
                    ti.rekey_outgoing();
                    tr.rekey_incoming();
                }
                let n = c.seed | 1 << 40;
                let n = if n == u64::MAX { 5 } else { n };
                let genuine = sl_write(&ti, n, &plain, plain.len() + 16).map_err(|x| Fail::setup(e(&x)))?;
                let mut msg = genuine.clone();
                alter_msg(&mut msg, 0);
                for rep in 0..1 + c.repeat % 3 {
                    let mut buf = prefill(bufsize(msg.len()));
                    let res = tr.read_message(n, &msg, &mut buf);
                    if res.is_ok() {
                        // acceptance of an altered message is C03/C04's business; nothing was rejected, so
                        // there is nothing to judge here
                        return Err(Fail::setup(format!("{what}: altered message accepted (delivery {})", rep + 1)));
                    }
                    if let Some((i, j)) = leaks(&buf, &plain) {
                        fail!("{what}: after rejected delivery {} the caller's buffer holds decrypted plaintext: buffer[{i}..{}] == plaintext[{j}..{}]", rep + 1, i + 8, j + 8);
                    }
                }
                let p = sl_read(&tr, n, &genuine, plain.len()).map_err(|x| Fail::setup(format!("{what}: control read of the genuine message failed (an honest read failing is not this property's business): {}", e(&x))))?;
                ensure!(p == plain, "{what}: control payload");
            }
        },
    }
    acc.label(format!("cipher:{}", suite.cipher.name()));
    acc.label(format!("backend:{:?}", if ring_covers(suite) { c.backend } else { Backend::Default }));
    acc.label(format!("path:{}", match &c.path { Path::Hs(..) => "handshake", Path::Stateful => "stateful", Path::Stateless => "stateless" }));
    acc.label(format!("alter:{}", format!("{:?}", c.alter).split('(').next().unwrap()));
    acc.label(format!("bufsize:{}", c.bufsize % 8));
    if plain.len() < 32 {
        acc.label("plaintext:<32");
    }
    if c.repeat % 3 > 0 {
        acc.label("repeated_delivery");
    }
    acc.nontrivial(&what);
    Ok(())
}

fn paths() -> Vec<Path> {
    vec![
        Path::Hs("NN".into(), vec![], 1),
        Path::Hs("XX".into(), vec![], 1),
        Path::Hs("XX".into(), vec![], 2),
        Path::Hs("IK".into(), vec![], 0),
        Path::Hs("N".into(), vec![], 0),
        Path::Hs("KK".into(), vec![], 1),
        Path::Hs("XX".into(), vec![3], 2),
        Path::Hs("NN".into(), vec![0], 0),
        // deferred patterns: the payload is NOT the first ciphertext under the current key
        Path::Hs("NX1".into(), vec![], 1),
        Path::Hs("XX1".into(), vec![], 1),
        Path::Hs("XX1".into(), vec![], 2),
        Path::Hs("X1N".into(), vec![], 2),
        Path::Hs("IX1".into(), vec![], 1),
        Path::Hs("KX1".into(), vec![], 1),
        Path::Hs("X1X1".into(), vec![], 3),
        Path::Hs("K1K1".into(), vec![], 2),
        Path::Hs("I1K1".into(), vec![2], 1),
        Path::Stateful,
        Path::Stateless,
    ]
}

pub fn run(ctx: &Ctx) {
    let mut cases = Vec::new();
    let mut k = 0u64;
    for suite_idx in 0..24 {
        for backend in [Backend::Default, Backend::RingFirst] {
            let suites = all_suites();
            if backend == Backend::RingFirst && !ring_covers(suites[suite_idx]) {
                continue;
            }
            for path in paths() {
                for alter in [Alter::TagBit(0), Alter::TagBit(127), Alter::BodyByte(0), Alter::BodyByte(31), Alter::DropLast, Alter::Ad, Alter::Extend(0), Alter::Extend(16), Alter::CutPayloadField(0), Alter::CutPayloadField(15)] {
                    for bufsize in 0..8u8 {
                        k += 1;
                        if ctx.tier.pick((k + suite_idx as u64) % 2 != 0, false) {
                            continue;
                        }
                        if ctx.tier.pick(bufsize >= 4 && k % 3 != 0, false) {
                            continue;
                        }
                        cases.push(Case { path: path.clone(), suite_idx, backend, plen: [32usize, 33, 64, 100, 1000, 4096, 16384, 32768, 40000, 65000, 8, 9, 15, 16, 17, 24, 31, 4080, 8192, 12288, 4096 * 3 - 16, 20480, 61440, 4097, 9000][(k % 25) as usize], alter, bufsize, seed: mix(ctx.seed, k), repeat: (k % 5 == 0) as u8 * 2, rekey_first: k % 7 == 0 });
                    }
                }
            }
        }
    }
    ctx.note(format!("{} enumerated (path, suite, backend, alteration, buffer size) cases", cases.len()));
    ctx.run_list("enumerated", &cases, false, oracle);
    ctx.run_prop(
        "random",
        ctx.tier.pick(20_000, 300_000),
        || {
            let ps = paths();
            let alter = prop_oneof![3 => any::<u8>().prop_map(Alter::TagBit), 3 => any::<u16>().prop_map(Alter::BodyByte), 1 => Just(Alter::DropLast), 1 => Just(Alter::Ad), 1 => any::<u8>().prop_map(Alter::Extend), 1 => any::<u8>().prop_map(Alter::CutPayloadField)];
            (0usize..19, 0usize..24, any::<bool>(), prop_oneof![2 => 8usize..32, 6 => 32usize..4097, 2 => 4097usize..65000, 2 => (1usize..16, 0usize..3).prop_map(|(k, d)| k * 4096 - [0usize, 16, 1][d]), 1 => Just(32767usize), 1 => Just(32768usize), 1 => Just(65000usize)], alter, 0u8..8, any::<u64>()).prop_map(move |(p, suite_idx, ring, plen, alter, bufsize, seed)| Case {
                path: ps[p].clone(),
                suite_idx,
                backend: if ring { Backend::RingFirst } else { Backend::Default },
                plen,
                alter,
                bufsize,
                seed,
                repeat: (seed % 4) as u8,
                rekey_first: seed % 5 == 0,
            })
        },
        oracle,
    );
}

pub fn replay(ctx: &Ctx, sub: &str, case: &serde_json::Value, origin: &str) -> bool {
    ctx.replay_case::<Case, _>(sub, case, oracle, origin)
}
