//! C17 The reported remote static key is the peer's true, complete public key.

use super::common::*;
use super::PropDef;
use crate::engine::{mix, Acc, CaseResult, Ctx, Fail, Tier};
use crate::refcrypto::{self as rc, DhKind};
use crate::sess::*;
use serde::{Deserialize, Serialize};

pub const DEF: PropDef = PropDef {
    id: "C17",
    run,
    replay,
    level: "exploration",
    rule: "enumeration: handshake strings x DH in {25519 (32-byte keys), P256 (65-byte keys)} x transport mode (stateful / stateless) x variant (plain; an unneeded, different remote key supplied up front; a tampered copy of the carrying message delivered first; a first read of every psk-carrying message that fails for a missing PSK, with and without an extra supplied key; writes that fail for lack of room before every message in the variants with an extra key); get_remote_static observed on both roles after build, after every message, after dangerously_get_raw_split() and after conversion. Expected value derived from the harness's own pattern table and the peer's private key via the reference DH: pre-shared -> the peer's full public key from build on; transmitted -> absent before (if none supplied), the peer's full public key from the successful read of the carrying message on; identical after conversion; absent when never conveyed and not supplied. Non-trivial = at least one role is given the peer's static key by the pattern; distinct by (name, suite, mode, variant)",
    technique: "differential observation against a reference key schedule (pattern table + independent DH), exhaustive over names x DH x roles x observation points",
    assumptions: &["when the caller supplies a remote key the pattern does not need, nothing is asserted for the window before the transmitted key arrives"],
    panic_is_violation: false,
    needs_refnoise: false,
};

#[derive(Clone, Debug, Serialize, Deserialize)]
pub struct Case {
    pub spec: SessionSpec,
    pub stateless: bool,
    /// 0 plain, 1 unneeded different remote key supplied on both sides, 2 tampered carrier first,
    /// 3 = 1 + 2: a rejected carrier must not change what is reported,
    /// 4 = the pre-shared remote key ends in zero bytes and is supplied WITHOUT them (the builder
    /// zero-pads short keys): the report must still be the full key,
    /// 5 = PSKs supplied late: every message with a psk token is first read WITHOUT the PSK (the
    /// read fails after the static-key field may already have been processed) and the report
    /// must not change; 6 = 5 with an unneeded different remote key supplied as in 1
    pub variant: u8,
}

fn oracle(c: &Case, acc: &mut Acc) -> CaseResult {
    let spec = &c.spec;
    let name = spec.name_string();
    let pat = spec.pattern();
    let dh = spec.suite.dh;
    let true_pub = |init: bool| spec.s_pub(init); // public key of `init`'s static key, via the reference DH
    let other_pub = rc::dh_pub(dh, &priv_from_seed(dh, spec.key_seed, 99)).unwrap();
    if c.variant == 4 {
        let any_applicable = [true, false].iter().any(|init| pat.role_needs_remote_static(*init) && true_pub(!*init).last() == Some(&0));
        if !any_applicable {
            acc.skip("variant 4 needs a pre-shared remote key that ends in a zero byte");
            return Ok(());
        }
        acc.label("preshared_key_supplied_without_trailing_zeros");
    }
    let mk = |init: bool| -> Result<snow::HandshakeState, Fail> {
        let mut ov = EpOverrides::default();
        if c.variant == 4 && pat.role_needs_remote_static(init) {
            let mut k = true_pub(!init);
            while k.last() == Some(&0) {
                k.pop();
            }
            ov.rs_value = Some(k);
        }
        if (c.variant == 1 || c.variant == 3 || c.variant == 6) && !pat.role_needs_remote_static(init) {
            ov.supply_rs = Some(true);
            ov.rs_value = Some(other_pub.clone());
        }
        if c.variant == 5 || c.variant == 6 {
            // PSKs arrive late (set_psk); the reader of the carrying message gets them only after
            // a first read has failed for the missing PSK
            ov.omit_psks = spec.hs.psks.clone();
        }
        build_snow(spec, init, &ov, &Instr::none()).map_err(|x| Fail::setup(format!("build {name}: {}", e(&x))))
    };
    let mut hi = mk(true)?;
    let mut hr = mk(false)?;
    let supplied_extra = |init: bool| (c.variant == 1 || c.variant == 3 || c.variant == 6) && !pat.role_needs_remote_static(init);
    // expectation for role `init` after `done` messages have been processed
    let expect = |init: bool, done: usize| -> Option<Option<Vec<u8>>> {
        if pat.role_needs_remote_static(init) {
            return Some(Some(true_pub(!init)));
        }
        match pat.remote_static_arrives_at(init) {
            Some(k) if done > k => Some(Some(true_pub(!init))),
            _ => {
                if supplied_extra(init) {
                    None // not judged
                } else {
                    Some(None)
                }
            },
        }
    };
    let check = |h: Option<&[u8]>, init: bool, done: usize, at: &str, acc: &mut Acc| -> CaseResult {
        match expect(init, done) {
            None => {
                acc.skip("unneeded remote key supplied and transmitted key not yet arrived");
                Ok(())
            },
            Some(want) => {
                let got = h.map(|x| x.to_vec());
                if got != want {
                    fail!(
                        "{name}: {} {at}: get_remote_static() = {} but expected {} (peer's full {}-byte public key)",
                        if init { "initiator" } else { "responder" },
                        got.as_ref().map_or("None".into(), |g| format!("{} ({} bytes)", hexs(g), g.len())),
                        want.as_ref().map_or("None".into(), |g| format!("{} ({} bytes)", hexs(g), g.len())),
                        dh.pub_len()
                    );
                }
                Ok(())
            },
        }
    };
    check(hi.get_remote_static(), true, 0, "after build", acc)?;
    check(hr.get_remote_static(), false, 0, "after build", acc)?;
    let nm = spec.n_msgs();
    let lay = spec.layouts();
    let toks_all = pat.with_psks(&spec.hs.psks).ok_or("psk set")?;
    for idx in 0..nm {
        let i_sends = idx % 2 == 0;
        let payload = spec.payload(idx, 4);
        let (w, r) = if i_sends { (&mut hi, &mut hr) } else { (&mut hr, &mut hi) };
        if c.variant == 5 || c.variant == 6 {
            for t in &toks_all[idx] {
                if let crate::refnoise::Tok::Psk(n) = t {
                    w.set_psk(*n as usize, &spec.psk(*n)).map_err(|x| Fail::setup(format!("{name}: set_psk: {}", e(&x))))?;
                }
            }
        }
        if c.variant % 2 == 1 || c.variant == 6 {
            // a WRITE that fails (output buffer too small, at two sizes) must not change what the
            // writer reports about its peer either
            let before = w.get_remote_static().map(|x| x.to_vec());
            for small in [0usize, lay[idx].overhead.saturating_sub(1)] {
                let mut tiny = vec![0u8; small];
                if w.write_message(&payload, &mut tiny).is_ok() {
                    return Err(Fail::setup(format!("{name}: write {idx} into a {small}-byte buffer succeeded")));
                }
            }
            let after = w.get_remote_static().map(|x| x.to_vec());
            ensure!(
                before == after,
                "{name}: {} after a FAILED write of message {idx}: get_remote_static() changed from {} to {}",
                if i_sends { "initiator" } else { "responder" },
                before.as_ref().map_or("None".into(), |g| hexs(g)),
                after.as_ref().map_or("None".into(), |g| hexs(g))
            );
            acc.label("failed_write_checked");
        }
        let msg = hs_write(w, &payload, 65535).map_err(|x| Fail::setup(format!("{name}: write {idx}: {}", e(&x))))?;
        if c.variant == 5 || c.variant == 6 {
            let needs: Vec<u8> = toks_all[idx].iter().filter_map(|t| if let crate::refnoise::Tok::Psk(n) = t { Some(*n) } else { None }).collect();
            if !needs.is_empty() {
                let before = r.get_remote_static().map(|x| x.to_vec());
                let mut buf = vec![0u8; 65535];
                let res = r.read_message(&msg, &mut buf);
                ensure!(res.is_err(), "{name}: message {idx} read without the PSK it needs: {res:?}");
                let after = r.get_remote_static().map(|x| x.to_vec());
                ensure!(
                    before == after,
                    "{name}: {} after a read of message {idx} that FAILED for a missing PSK: get_remote_static() changed from {} to {} although the message has not been read successfully",
                    if i_sends { "responder" } else { "initiator" },
                    before.as_ref().map_or("None".into(), |g| hexs(g)),
                    after.as_ref().map_or("None".into(), |g| hexs(g))
                );
                if pat.remote_static_arrives_at(!i_sends) == Some(idx) {
                    acc.label("carrier_failed_for_missing_psk_checked");
                }
                for n in needs {
                    r.set_psk(n as usize, &spec.psk(n)).map_err(|x| Fail::setup(format!("{name}: set_psk: {}", e(&x))))?;
                }
            }
        }
        if c.variant == 3 && pat.remote_static_arrives_at(!i_sends) == Some(idx) {
            // the key only becomes available through a SUCCESSFUL read: a rejected copy of the
            // carrying message must leave the reported value (here: the supplied key) unchanged
            let mut m = msg.clone();
            let l = m.len();
            m[l - 1] ^= 1;
            let before = r.get_remote_static().map(|x| x.to_vec());
            let mut buf = vec![0u8; 65535];
            if r.read_message(&m, &mut buf).is_err() {
                let after = r.get_remote_static().map(|x| x.to_vec());
                ensure!(
                    before == after,
                    "{name}: {} after a REJECTED copy of message {idx}: get_remote_static() changed from {} to {} although the carrying message has not been read successfully",
                    if i_sends { "responder" } else { "initiator" },
                    before.as_ref().map_or("None".into(), |g| hexs(g)),
                    after.as_ref().map_or("None".into(), |g| hexs(g))
                );
                acc.label("rejected_carrier_with_supplied_key_checked");
            } else {
                acc.skip("tampered carrier accepted (unauthenticated message)");
                return Ok(());
            }
        }
        if c.variant == 2 && pat.remote_static_arrives_at(!i_sends) == Some(idx) {
            // tamper with the last byte (payload or its tag): the static key field itself decrypts fine
            let mut m = msg.clone();
            let l = m.len();
            m[l - 1] ^= 1;
            let mut buf = vec![0u8; 65535];
            if r.read_message(&m, &mut buf).is_err() {
                check(r.get_remote_static(), !i_sends, idx, &format!("after a REJECTED copy of message {idx}"), acc)?;
                acc.label("rejected_carrier_checked");
            } else {
                // nothing in this message is authenticated yet: the altered copy was accepted and
                // the session has (legitimately) moved on; this variant does not apply
                acc.skip("tampered carrier accepted (unauthenticated message)");
                return Ok(());
            }
            let _ = &lay;
        }
        hs_read(r, &msg, 65535).map_err(|x| Fail::setup(format!("{name}: read {idx}: {}", e(&x))))?;
        check(hi.get_remote_static(), true, idx + 1, &format!("after message {idx}"), acc)?;
        check(hr.get_remote_static(), false, idx + 1, &format!("after message {idx}"), acc)?;
    }
    // the raw Split() output can be asked for before conversion (upstream feature
    // risky-raw-split): a query, it must not change what is reported
    if spec.key_seed % 2 == 0 {
        let _ = hi.dangerously_get_raw_split();
        let _ = hr.dangerously_get_raw_split();
        check(hi.get_remote_static(), true, nm, "after dangerously_get_raw_split()", acc)?;
        check(hr.get_remote_static(), false, nm, "after dangerously_get_raw_split()", acc)?;
        acc.label("raw_split_called_before_conversion");
    }
    if c.stateless {
        let ti = hi.into_stateless_transport_mode().map_err(|x| Fail::setup(e(&x)))?;
        let tr = hr.into_stateless_transport_mode().map_err(|x| Fail::setup(e(&x)))?;
        check(ti.get_remote_static(), true, nm, "after conversion to stateless transport mode", acc)?;
        check(tr.get_remote_static(), false, nm, "after conversion to stateless transport mode", acc)?;
    } else {
        let mut ti = hi.into_transport_mode().map_err(|x| Fail::setup(e(&x)))?;
        let mut tr = hr.into_transport_mode().map_err(|x| Fail::setup(e(&x)))?;
        check(ti.get_remote_static(), true, nm, "after conversion to transport mode", acc)?;
        check(tr.get_remote_static(), false, nm, "after conversion to transport mode", acc)?;
        // still the same after traffic and a rekey
        let m = t_write(&mut ti, b"x", 32).map_err(|x| Fail::setup(e(&x)))?;
        t_read(&mut tr, &m, 32).map_err(|x| Fail::setup(e(&x)))?;
        ti.rekey_outgoing();
        ti.rekey_manually(Some(&[7u8; 32]), Some(&[8u8; 32]));
        tr.rekey_manually(Some(&[7u8; 32]), Some(&[8u8; 32]));
        for _ in 0..40 {
            let m = t_write(&mut ti, b"more", 32).map_err(|x| Fail::setup(e(&x)))?;
            t_read(&mut tr, &m, 32).map_err(|x| Fail::setup(e(&x)))?;
        }
        check(ti.get_remote_static(), true, nm, "after transport traffic", acc)?;
        check(ti.get_remote_static(), true, nm, "on a second call", acc)?;
        check(tr.get_remote_static(), false, nm, "after transport traffic", acc)?;
    }
    acc.label(format!("dh:{}", dh.name()));
    acc.label(format!("variant:{}", c.variant));
    acc.label(format!("mode:{}", if c.stateless { "stateless" } else { "stateful" }));
    let conveys = |init: bool| pat.role_needs_remote_static(init) || pat.remote_static_arrives_at(init).is_some();
    acc.label(format!("conveyed_to:{}{}", if conveys(true) { "I" } else { "-" }, if conveys(false) { "R" } else { "-" }));
    if conveys(true) || conveys(false) {
        acc.nontrivial(&(name, spec.suite, c.stateless, c.variant));
    }
    Ok(())
}

pub fn run(ctx: &Ctx) {
    let names = all_hs_names();
    let suites = all_suites();
    let mut cases = Vec::new();
    for (ni, hs) in names.iter().enumerate() {
        for dh in [DhKind::X25519, DhKind::P256] {
            let per_dh: Vec<_> = suites.iter().filter(|s| s.dh == dh).collect();
            let picks: Vec<usize> = if ctx.tier == Tier::Thorough { (0..12).collect() } else { vec![(ni * 5) % 12, (ni * 5 + 4) % 12, (ni * 5 + 8) % 12] };
            for si in picks {
                let spec = SessionSpec::simple(hs.clone(), *per_dh[si], mix(ctx.seed, (ni * 12 + si) as u64));
                for stateless in [false, true] {
                    for variant in 0..7u8 {
                        if variant >= 5 && hs.psks.is_empty() {
                            continue;
                        }
                        if ctx.tier == Tier::Quick && variant > 0 && variant < 5 && !hs.psks.is_empty() && (ni + variant as usize) % 3 != 0 {
                            continue;
                        }
                        if ctx.tier == Tier::Quick && variant >= 5 && (ni + si + variant as usize) % 2 != 0 {
                            continue;
                        }
                        let mut sp = spec.clone();
                        if variant == 4 {
                            // key seeds with seed % 8 == 7 give public keys that end in a zero byte
                            sp.key_seed = sp.key_seed | 7;
                            if !sp.pattern().role_needs_remote_static(true) && !sp.pattern().role_needs_remote_static(false) {
                                continue;
                            }
                        }
                        cases.push(Case { spec: sp, stateless, variant });
                    }
                }
            }
        }
    }
    ctx.run_list("observation_points", &cases, true, oracle);
}

pub fn replay(ctx: &Ctx, sub: &str, case: &serde_json::Value, origin: &str) -> bool {
    ctx.replay_case::<Case, _>(sub, case, oracle, origin)
}
