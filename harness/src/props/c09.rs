//! C09 Nonces count up by one and the reserved value 2^64-1 is never used.

use super::common::*;
use super::PropDef;
use crate::engine::{expand, mix, Acc, CaseResult, Ctx, Fail};
use crate::instr::{Backend, Ev, Log, SharedRng};
use crate::sess::*;
use proptest::prelude::*;
use serde::{Deserialize, Serialize};
use snow::error::StateProblem;
use snow::Error;

pub const DEF: PropDef = PropDef {
    id: "C09",
    run,
    replay,
    level: "exploration",
    rule: "model-based op sequences on a stateful pair and on a stateless pair, three quarters of them behind a recording cipher and one quarter on the built-in primitives as they are: writes (valid, undersized buffer, oversize payload), deliveries (any earlier message of the direction, garbage, undersized payload buffer), set_receiving_nonce(v) and (hook) verif_set_sending_nonce(v) with v in {0,1,2^32-1,2^32,2^64-4..2^64-1,random}, auto and manual rekeys of either direction on either side, deliveries of messages longer than 65535 bytes and shorter than a tag; scenarios: counters started 2 below EVERY power of two 2^1..2^63 and 3 writes/reads across it; 300 messages written and read in a row from several bases (the COUNT crosses 256); 70 / 300 / 1000 consecutive failing reads and failing writes before the genuine ones; stateless reads/writes with the same nonce set. Model: per side a sending and a receiving counter starting at 0, +1 per successful op, unchanged otherwise, never wrapping; at 2^64-1 a well-formed read/write returns Err(State(Exhausted)) and the counter stays; a delivery is accepted iff its nonce equals the receiver's counter and the key epochs match. Log oracle: the cipher is never called with nonce 2^64-1 outside a bracketed rekey, and the nonce it sees equals the model counter for every op. Checked after every step on both sides. Non-trivial = a sequence in which a counter was placed within 3 of 2^64-1 or an op failed and a later one succeeded; distinct by (config, ops)",
    technique: "model-based testing with an instrumented (recording) cipher; enumeration of boundary scenarios + proptest sequences with shrinking; uses the verif-hooks sending-nonce setter",
    assumptions: &["the sending counter is placed next to the boundary through the guarded hook TransportState::verif_set_sending_nonce"],
    panic_is_violation: false,
    needs_refnoise: false,
};

#[derive(Clone, Copy, Debug, Serialize, Deserialize, PartialEq, Eq, Hash)]
pub enum Op {
    /// (initiator sends?, kind 0 ok / 1 undersized buffer / 2 oversize payload)
    Write(bool, u8),
    /// (receiver is initiator?, which earlier message (from the end), kind 0 genuine / 1 garbage / 2 undersized payload buffer / 3 a message longer than 65535 bytes / 4 shorter than a tag)
    Deliver(bool, u8, u8),
    SetRecv(bool, u64),
    SetSend(bool, u64),
    RekeyOut(bool),
    RekeyIn(bool),
    /// rekey_manually(Some(k1), Some(k2)) with the same keys on BOTH endpoints
    ManualBoth(u8),
    /// rekey_initiator_manually / rekey_responder_manually (by bool) on both endpoints
    ManualOne(bool, u8),
}

#[derive(Clone, Debug, Serialize, Deserialize)]
pub struct Case {
    pub pattern: String,
    pub suite_idx: usize,
    pub backend: Backend,
    pub stateless: bool,
    pub ops: Vec<Op>,
    pub seed: u64,
}

struct Rec {
    nonce: u64,
    epoch: u64,
    payload: Vec<u8>,
    bytes: Vec<u8>,
}

pub const NONCES: [u64; 21] = [0, 1, 0xFFFF_FFFF, 0x1_0000_0000, u64::MAX - 4, u64::MAX - 3, u64::MAX - 2, u64::MAX - 1, u64::MAX, 254, 255, 256, 65534, 65535, 65536, (1 << 24) - 1, (1 << 31) - 1, (1 << 48) - 1, (1 << 63) - 1, (1 << 40) - 1, (1 << 56) - 1];

fn new_events(log: &Log, from: usize) -> Vec<Ev> {
    log.events()[from..].to_vec()
}

fn check_no_reserved(name: &str, log: &Log) -> CaseResult {
    for ev in log.events() {
        match &ev {
            Ev::Enc { nonce, .. } if *nonce == u64::MAX && !crate::instr::is_rekey_shape(&ev) => {
                fail!("{name}: the cipher was asked to ENCRYPT a message under the reserved nonce 2^64-1");
            },
            Ev::Dec { nonce, .. } if *nonce == u64::MAX => {
                fail!("{name}: the cipher was asked to DECRYPT a message under the reserved nonce 2^64-1");
            },
            _ => {},
        }
    }
    Ok(())
}

fn oracle(c: &Case, acc: &mut Acc) -> CaseResult {
    let suites = all_suites();
    let suite = suites[c.suite_idx % suites.len()];
    let mut spec = SessionSpec::simple(HsName { pattern: c.pattern.clone(), psks: vec![] }, suite, c.seed);
    if ring_covers(suite) {
        spec.backend_i = c.backend;
        spec.backend_r = c.backend;
    }
    let name = format!("{} [{:?}] stateless={}", spec.name_string(), c.backend, c.stateless);
    let oneway = spec.pattern().is_oneway();
    let log = Log::default();
    // three sessions out of four run behind the recording cipher; the fourth uses the built-in
    // primitives as they are (what a backend does in its own overrides of provided trait methods
    // is then in play): the counter model, the getters and the exhaustion error are judged in both
    let instrumented = c.seed % 4 != 0;
    let rng = SharedRng::seeded(c.seed, false);
    let mut hi = build_snow(&spec, true, &EpOverrides::default(), &Instr { rng: Some(rng.clone()), log: if instrumented { Some(log.clone()) } else { None } }).map_err(|x| Fail::setup(e(&x)))?;
    let mut hr = build_snow(&spec, false, &EpOverrides::default(), &Instr { rng: Some(rng), log: if instrumented { Some(log.clone()) } else { None } }).map_err(|x| Fail::setup(e(&x)))?;
    for k in 0..spec.n_msgs() {
        let (w, r) = if k % 2 == 0 { (&mut hi, &mut hr) } else { (&mut hr, &mut hi) };
        let m = hs_write(w, b"hs", 65535).map_err(|x| Fail::setup(e(&x)))?;
        hs_read(r, &m, 65535).map_err(|x| Fail::setup(e(&x)))?;
    }
    // model: index 0 = initiator, 1 = responder
    let mut sn = [0u64; 2];
    let mut rn = [0u64; 2];
    let mut out_epoch = [0u64; 2];
    let mut in_epoch = [0u64; 2];
    let mut sent: [Vec<Rec>; 2] = [vec![], vec![]]; // by sender
    let mut near_boundary = false;
    let mut fail_then_ok = false;
    let mut seen_fail = false;
    let exhausted = Err::<usize, Error>(Error::State(StateProblem::Exhausted));

    if c.stateless {
        let ti = hi.into_stateless_transport_mode().map_err(|x| Fail::setup(e(&x)))?;
        let tr = hr.into_stateless_transport_mode().map_err(|x| Fail::setup(e(&x)))?;
        let mut ts = [ti, tr];
        // in stateless mode SetSend/SetRecv select the nonce the caller passes next
        for (step, op) in c.ops.iter().enumerate() {
            let ctx = format!("{name} ops {:?} step {step} ({op:?})", c.ops);
            let mark = log.len();
            match op {
                Op::SetSend(side_i, v) => sn[!*side_i as usize] = *v,
                Op::SetRecv(side_i, v) => rn[!*side_i as usize] = *v,
                Op::Write(i_sends, kind) => {
                    let s = !*i_sends as usize;
                    if oneway && s == 1 {
                        continue;
                    }
                    let n = sn[s];
                    near_boundary |= n >= u64::MAX - 3;
                    let payload = expand(c.seed, 100 + step as u64, if *kind == 2 { 65520 } else { [9usize, 0, 1, 16, 9, 200, 9, 5000][(step + c.seed as usize) % 8] });
                    let mut buf = vec![0u8; if *kind == 1 { payload.len() + 15 - (step % 3).min(payload.len() + 15) } else { payload.len() + 16 }];
                    let res = ts[s].write_message(n, &payload, &mut buf);
                    let evs = new_events(&log, mark);
                    if *kind != 0 {
                        ensure!(res.is_err(), "{ctx}: malformed write succeeded");
                        ensure!(evs.is_empty(), "{ctx}: a failing write reached the cipher");
                        seen_fail = true;
                    } else if n == u64::MAX {
                        ensure!(res == exhausted, "{ctx}: write under the reserved nonce returned {res:?}, expected Err(State(Exhausted))");
                        ensure!(evs.is_empty(), "{ctx}: write under the reserved nonce reached the cipher");
                        seen_fail = true;
                    } else {
                        let l = res.map_err(|x| Fail::new(format!("{ctx}: valid write failed: {x:?}")))?;
                        ensure!(!instrumented || matches!(&evs[..], [Ev::Enc { nonce, .. }] if *nonce == n), "{ctx}: cipher saw {evs:?}, expected one encryption under nonce {n}");
                        sent[s].push(Rec { nonce: n, epoch: out_epoch[s], payload, bytes: buf[..l].to_vec() });
                        fail_then_ok |= seen_fail;
                    }
                },
                Op::Deliver(to_i, which, kind) => {
                    let r = !*to_i as usize;
                    let s = 1 - r;
                    if oneway && r == 0 {
                        continue;
                    }
                    if sent[s].is_empty() {
                        continue;
                    }
                    let rec = &sent[s][sent[s].len() - 1 - (*which as usize % sent[s].len())];
                    // an empty payload has no "one byte too small" buffer
                    let kind = &(if *kind == 2 && rec.payload.is_empty() { 0u8 } else { *kind });
                    let n = rn[r];
                    near_boundary |= n >= u64::MAX - 3;
                    let msg = match *kind {
                        1 => expand(c.seed, 200 + step as u64, rec.bytes.len()),
                        3 => vec![0x41u8; 65536 + (step % 3)],
                        4 => rec.bytes[..(step % 16).min(rec.bytes.len())].to_vec(),
                        _ => rec.bytes.clone(),
                    };
                    let mut buf = vec![0u8; if *kind == 2 { rec.payload.len() - 1 } else if *kind == 3 { 70000 } else { rec.payload.len() }];
                    let res = ts[r].read_message(n, &msg, &mut buf);
                    let evs = new_events(&log, mark);
                    if *kind == 3 || *kind == 4 {
                        // longer than 65535 bytes / shorter than a tag: rejected, nothing moves
                        ensure!(res.is_err(), "{ctx}: a message of {} bytes was accepted: {res:?}", msg.len());
                        // (whether an oversize message reaches the cipher is a framing question, C14)
                        ensure!(evs.iter().all(|ev| !matches!(ev, Ev::Dec { nonce, .. } if *nonce != n)), "{ctx}: the cipher was handed another nonce than the counter {n}: {evs:?}");
                        seen_fail = true;
                    } else if *kind == 2 {
                        ensure!(res.is_err() && evs.is_empty(), "{ctx}: undersized payload buffer: {res:?} {evs:?}");
                        seen_fail = true;
                    } else if n == u64::MAX {
                        ensure!(res == exhausted, "{ctx}: read under the reserved nonce returned {res:?}");
                        ensure!(evs.is_empty(), "{ctx}: read under the reserved nonce reached the cipher");
                        seen_fail = true;
                    } else {
                        // every nonce the cipher is handed is the model counter; a read that fails may
                        // also be refused before the cipher is reached
                        ensure!(
                            !instrumented || matches!(&evs[..], [Ev::Dec { nonce, .. }] if *nonce == n) || (res.is_err() && evs.is_empty()),
                            "{ctx}: cipher saw {evs:?}, expected one decryption under nonce {n}"
                        );
                        let should = *kind == 0 && rec.nonce == n && rec.epoch == in_epoch[r];
                        if should {
                            let l = res.map_err(|x| attribute(&x, format!("{ctx}: genuine message under its own nonce rejected: {x:?}")))?;
                            ensure!(buf[..l] == rec.payload[..], "{ctx}: payload differs");
                            fail_then_ok |= seen_fail;
                        } else {
                            if res.is_ok() {
                                // which messages authenticate is C04/C05/C15's business, not a counter rule
                                return Err(Fail::setup(format!("{ctx}: accepted (message nonce {}, presented {n}, epochs {}/{})", rec.nonce, rec.epoch, in_epoch[r])));
                            }
                            seen_fail = true;
                        }
                    }
                },
                Op::ManualBoth(k) => {
                    let (k1, k2) = (crate::engine::expand32(c.seed, 400 + *k as u64), crate::engine::expand32(c.seed, 401 + *k as u64));
                    for t in ts.iter_mut() {
                        t.rekey_manually(Some(&k1), Some(&k2));
                    }
                    // epochs are a function of the installed key: label * 10^6, auto rekeys add 1
                    let (e1, e2) = ((400 + *k as u64) * 1_000_000, (401 + *k as u64) * 1_000_000);
                    out_epoch = [e1, e2];
                    in_epoch = [e2, e1];
                },
                Op::ManualOne(resp, k) => {
                    let k1 = crate::engine::expand32(c.seed, 500 + *k as u64);
                    for t in ts.iter_mut() {
                        if *resp {
                            t.rekey_responder_manually(&k1);
                        } else {
                            t.rekey_initiator_manually(&k1);
                        }
                    }
                    let ep = (500 + *k as u64) * 1_000_000;
                    // initiator-egress key: out of side 0, in of side 1; responder-egress: the reverse
                    if *resp {
                        out_epoch[1] = ep;
                        in_epoch[0] = ep;
                    } else {
                        out_epoch[0] = ep;
                        in_epoch[1] = ep;
                    }
                },
                Op::RekeyOut(side_i) => {
                    let s = !*side_i as usize;
                    ts[s].rekey_outgoing();
                    out_epoch[s] += 1;
                },
                Op::RekeyIn(side_i) => {
                    let s = !*side_i as usize;
                    ts[s].rekey_incoming();
                    in_epoch[s] += 1;
                },
            }
        }
    } else {
        let ti = hi.into_transport_mode().map_err(|x| Fail::setup(e(&x)))?;
        let tr = hr.into_transport_mode().map_err(|x| Fail::setup(e(&x)))?;
        let mut ts = [ti, tr];
        ensure!(ts[0].sending_nonce() == 0 && ts[0].receiving_nonce() == 0 && ts[1].sending_nonce() == 0 && ts[1].receiving_nonce() == 0, "{name}: nonces do not start at 0");
        for (step, op) in c.ops.iter().enumerate() {
            let ctx = format!("{name} ops {:?} step {step} ({op:?})", c.ops);
            let mark = log.len();
            match op {
                Op::SetSend(side_i, v) => {
                    let s = !*side_i as usize;
                    ts[s].verif_set_sending_nonce(*v);
                    sn[s] = *v;
                },
                Op::SetRecv(side_i, v) => {
                    let s = !*side_i as usize;
                    ts[s].set_receiving_nonce(*v);
                    rn[s] = *v;
                },
                Op::Write(i_sends, kind) => {
                    let s = !*i_sends as usize;
                    if oneway && s == 1 {
                        continue;
                    }
                    let n = sn[s];
                    near_boundary |= n >= u64::MAX - 3;
                    let payload = expand(c.seed, 100 + step as u64, if *kind == 2 { 65520 } else { [9usize, 0, 1, 16, 9, 200, 9, 5000][(step + c.seed as usize) % 8] });
                    let mut buf = vec![0u8; if *kind == 1 { payload.len() + 15 - (step % 3).min(payload.len() + 15) } else { payload.len() + 16 }];
                    let res = ts[s].write_message(&payload, &mut buf);
                    let evs = new_events(&log, mark);
                    if *kind != 0 {
                        ensure!(res.is_err(), "{ctx}: malformed write succeeded");
                        ensure!(evs.is_empty(), "{ctx}: a failing write reached the cipher");
                        seen_fail = true;
                    } else if n == u64::MAX {
                        ensure!(res == exhausted, "{ctx}: write at sending nonce 2^64-1 returned {res:?}, expected Err(State(Exhausted))");
                        ensure!(evs.is_empty(), "{ctx}: write at the reserved nonce reached the cipher");
                        seen_fail = true;
                    } else {
                        let l = res.map_err(|x| Fail::new(format!("{ctx}: valid write failed: {x:?}")))?;
                        ensure!(!instrumented || matches!(&evs[..], [Ev::Enc { nonce, .. }] if *nonce == n), "{ctx}: cipher saw {evs:?}, expected one encryption under nonce {n}");
                        sent[s].push(Rec { nonce: n, epoch: out_epoch[s], payload, bytes: buf[..l].to_vec() });
                        sn[s] += 1;
                        fail_then_ok |= seen_fail;
                    }
                },
                Op::Deliver(to_i, which, kind) => {
                    let r = !*to_i as usize;
                    let s = 1 - r;
                    if oneway && r == 0 {
                        continue;
                    }
                    if sent[s].is_empty() {
                        continue;
                    }
                    let rec = &sent[s][sent[s].len() - 1 - (*which as usize % sent[s].len())];
                    // an empty payload has no "one byte too small" buffer
                    let kind = &(if *kind == 2 && rec.payload.is_empty() { 0u8 } else { *kind });
                    let n = rn[r];
                    near_boundary |= n >= u64::MAX - 3;
                    let msg = match *kind {
                        1 => expand(c.seed, 200 + step as u64, rec.bytes.len()),
                        3 => vec![0x41u8; 65536 + (step % 3)],
                        4 => rec.bytes[..(step % 16).min(rec.bytes.len())].to_vec(),
                        _ => rec.bytes.clone(),
                    };
                    let mut buf = vec![0u8; if *kind == 2 { rec.payload.len() - 1 } else if *kind == 3 { 70000 } else { rec.payload.len() }];
                    let res = ts[r].read_message(&msg, &mut buf);
                    let evs = new_events(&log, mark);
                    if *kind == 3 || *kind == 4 {
                        // longer than 65535 bytes / shorter than a tag: rejected, nothing moves
                        ensure!(res.is_err(), "{ctx}: a message of {} bytes was accepted: {res:?}", msg.len());
                        // (whether an oversize message reaches the cipher is a framing question, C14)
                        ensure!(evs.iter().all(|ev| !matches!(ev, Ev::Dec { nonce, .. } if *nonce != n)), "{ctx}: the cipher was handed another nonce than the counter {n}: {evs:?}");
                        seen_fail = true;
                    } else if *kind == 2 {
                        ensure!(res.is_err() && evs.is_empty(), "{ctx}: undersized payload buffer: {res:?} {evs:?}");
                        seen_fail = true;
                    } else if n == u64::MAX {
                        ensure!(res == exhausted, "{ctx}: read at receiving nonce 2^64-1 returned {res:?}, expected Err(State(Exhausted))");
                        ensure!(evs.is_empty(), "{ctx}: read at the reserved nonce reached the cipher");
                        seen_fail = true;
                    } else {
                        // every nonce the cipher is handed is the model counter; a read that fails may
                        // also be refused before the cipher is reached
                        ensure!(
                            !instrumented || matches!(&evs[..], [Ev::Dec { nonce, .. }] if *nonce == n) || (res.is_err() && evs.is_empty()),
                            "{ctx}: cipher saw {evs:?}, expected one decryption under nonce {n}"
                        );
                        let should = *kind == 0 && rec.nonce == n && rec.epoch == in_epoch[r];
                        if should {
                            let l = res.map_err(|x| attribute(&x, format!("{ctx}: the message whose number equals the receiving nonce was rejected: {x:?}")))?;
                            ensure!(buf[..l] == rec.payload[..], "{ctx}: payload differs");
                            rn[r] += 1;
                            fail_then_ok |= seen_fail;
                        } else {
                            if res.is_ok() {
                                return Err(Fail::setup(format!("{ctx}: accepted (message nonce {}, receiving nonce {n}, epochs {}/{})", rec.nonce, rec.epoch, in_epoch[r])));
                            }
                            seen_fail = true;
                        }
                    }
                },
                Op::ManualBoth(k) => {
                    let (k1, k2) = (crate::engine::expand32(c.seed, 400 + *k as u64), crate::engine::expand32(c.seed, 401 + *k as u64));
                    for t in ts.iter_mut() {
                        t.rekey_manually(Some(&k1), Some(&k2));
                    }
                    // epochs are a function of the installed key: label * 10^6, auto rekeys add 1
                    let (e1, e2) = ((400 + *k as u64) * 1_000_000, (401 + *k as u64) * 1_000_000);
                    out_epoch = [e1, e2];
                    in_epoch = [e2, e1];
                },
                Op::ManualOne(resp, k) => {
                    let k1 = crate::engine::expand32(c.seed, 500 + *k as u64);
                    for t in ts.iter_mut() {
                        if *resp {
                            t.rekey_responder_manually(&k1);
                        } else {
                            t.rekey_initiator_manually(&k1);
                        }
                    }
                    let ep = (500 + *k as u64) * 1_000_000;
                    // initiator-egress key: out of side 0, in of side 1; responder-egress: the reverse
                    if *resp {
                        out_epoch[1] = ep;
                        in_epoch[0] = ep;
                    } else {
                        out_epoch[0] = ep;
                        in_epoch[1] = ep;
                    }
                },
                Op::RekeyOut(side_i) => {
                    let s = !*side_i as usize;
                    ts[s].rekey_outgoing();
                    out_epoch[s] += 1;
                },
                Op::RekeyIn(side_i) => {
                    let s = !*side_i as usize;
                    ts[s].rekey_incoming();
                    in_epoch[s] += 1;
                },
            }
            for s in 0..2 {
                ensure!(ts[s].sending_nonce() == sn[s], "{ctx}: {} sending_nonce() = {} but the model says {}", ["initiator", "responder"][s], ts[s].sending_nonce(), sn[s]);
                ensure!(ts[s].receiving_nonce() == rn[s], "{ctx}: {} receiving_nonce() = {} but the model says {}", ["initiator", "responder"][s], ts[s].receiving_nonce(), rn[s]);
            }
        }
    }
    check_no_reserved(&name, &log)?;
    acc.label(format!("cipher:{}", suite.cipher.name()));
    acc.label(format!("backend:{:?}", if ring_covers(suite) { c.backend } else { Backend::Default }));
    acc.label(if c.stateless { "mode:stateless" } else { "mode:stateful" });
    if near_boundary {
        acc.label("near_2^64");
    }
    if fail_then_ok {
        acc.label("fail_then_ok");
    }
    if near_boundary || fail_then_ok {
        acc.nontrivial(&(name, c.ops.clone()));
    }
    Ok(())
}

/// A delivery the model expects to be accepted was rejected: the exhaustion error away from
/// 2^64-1 is a counter-rule violation; a decryption failure of an honest message is the business of
/// C02/C05/C15 (not judged here).
fn attribute(x: &snow::Error, msg: String) -> Fail {
    if matches!(x, snow::Error::State(_)) {
        Fail::new(msg)
    } else {
        Fail::setup(msg)
    }
}

fn scenarios() -> Vec<Vec<Op>> {
    let mut out = Vec::new();
    for side in [true, false] {
        for v in NONCES {
            // place the sender, write three times, deliver in order with the receiver placed too
            out.push(vec![Op::SetSend(side, v), Op::SetRecv(!side, v), Op::Write(side, 0), Op::Deliver(!side, 0, 0), Op::Write(side, 0), Op::Deliver(!side, 0, 0), Op::Write(side, 0), Op::Write(side, 1), Op::Deliver(!side, 0, 0), Op::Write(side, 0), Op::Deliver(!side, 0, 0)]);
            // receiver alone at the boundary
            out.push(vec![Op::Write(side, 0), Op::SetRecv(!side, v), Op::Deliver(!side, 0, 0), Op::Deliver(!side, 0, 1), Op::SetRecv(!side, 0), Op::Deliver(!side, 0, 0)]);
            // failing ops at the boundary do not move counters
            out.push(vec![Op::SetSend(side, v), Op::Write(side, 1), Op::Write(side, 2), Op::Write(side, 0), Op::SetRecv(!side, v), Op::Deliver(!side, 0, 2), Op::Deliver(!side, 0, 1), Op::Deliver(!side, 0, 0)]);
            // manual rekeys do not touch counters either (also not at the reserved value)
            out.push(vec![Op::SetSend(side, v), Op::SetRecv(!side, v), Op::ManualBoth(0), Op::Write(side, 0), Op::Deliver(!side, 0, 0), Op::ManualOne(!side, 1), Op::Write(side, 0), Op::Deliver(!side, 0, 0), Op::ManualOne(side, 2), Op::Write(side, 0), Op::Deliver(!side, 0, 0)]);
            // rekeys do not touch counters
            out.push(vec![Op::SetSend(side, v), Op::RekeyOut(side), Op::RekeyIn(!side), Op::SetRecv(!side, v), Op::Write(side, 0), Op::Deliver(!side, 0, 0), Op::RekeyIn(side), Op::Write(side, 0), Op::Deliver(!side, 0, 0)]);
        }
    }
    for side in [true, false] {
        // every power of two is crossed by consecutive writes and reads
        for b in 1..64u32 {
            let v = (1u64 << b) - 2;
            out.push(vec![Op::SetSend(side, v), Op::SetRecv(!side, v), Op::Write(side, 0), Op::Deliver(!side, 0, 0), Op::Write(side, 0), Op::Deliver(!side, 0, 3), Op::Deliver(!side, 0, 0), Op::Write(side, 0), Op::Deliver(!side, 0, 4), Op::Deliver(!side, 0, 0), Op::Write(side, 1), Op::Write(side, 0), Op::Deliver(!side, 0, 0)]);
        }
        // many consecutive failing calls (no success in between), then the genuine ones
        for n_fail in [70usize, 300, 1000] {
            let mut ops = vec![Op::Write(side, 0), Op::Write(side, 0)];
            for k in 0..n_fail {
                ops.push(Op::Deliver(!side, 1, [1u8, 1, 1, 2, 3, 4][k % 6]));
            }
            ops.push(Op::Deliver(!side, 1, 0));
            for k in 0..n_fail {
                ops.push(Op::Write(side, 1 + (k % 2) as u8));
            }
            ops.push(Op::Write(side, 0));
            ops.push(Op::Deliver(!side, 1, 0));
            ops.push(Op::Deliver(!side, 0, 0));
            out.push(ops);
        }
        // long runs: 300 messages written and read in a row (the COUNT of messages crosses 256
        // whatever the counter value is), with a failing call now and then
        for base in [0u64, 7, 65536 - 150, (1 << 32) - 150] {
            let mut ops = vec![Op::SetSend(side, base), Op::SetRecv(!side, base)];
            for k in 0..300 {
                ops.push(Op::Write(side, 0));
                if k % 50 == 49 {
                    ops.push(Op::Write(side, 1));
                    ops.push(Op::Deliver(!side, 0, [1u8, 2, 3, 4][(k / 50) % 4]));
                }
                ops.push(Op::Deliver(!side, 0, 0));
            }
            out.push(ops);
        }
    }
    out
}

pub fn run(ctx: &Ctx) {
    let pats = ["NN", "N", "XX", "K"];
    let sc = scenarios();
    let mut cases = Vec::new();
    let mut k = 0usize;
    for ops in &sc {
        for stateless in [false, true] {
            for rep in 0..ctx.tier.pick(3usize, 24) {
                k += 1;
                cases.push(Case {
                    pattern: pats[k % 4].to_string(),
                    suite_idx: (k * 5 + rep) % 24,
                    backend: if k % 2 == 0 { Backend::Default } else { Backend::RingFirst },
                    stateless,
                    ops: ops.clone(),
                    seed: mix(ctx.seed, k as u64),
                });
            }
        }
    }
    ctx.run_list("boundary_scenarios", &cases, false, oracle);
    ctx.run_prop(
        "random_sequences",
        ctx.tier.pick(60_000, 1_000_000),
        move || {
            let nonce = prop_oneof![6 => (0usize..NONCES.len()).prop_map(|i| NONCES[i]), 1 => any::<u64>(), 1 => (0u32..64).prop_map(|b| (1u64 << b) - 1), 1 => (0u32..64).prop_map(|b| (1u64 << b).wrapping_sub(2))];
            let op = prop_oneof![
                6 => (any::<bool>(), prop_oneof![6 => Just(0u8), 1 => Just(1u8), 1 => Just(2u8)]).prop_map(|(a, k)| Op::Write(a, k)),
                6 => (any::<bool>(), 0u8..3, prop_oneof![12 => Just(0u8), 2 => Just(1u8), 2 => Just(2u8), 1 => Just(3u8), 1 => Just(4u8)]).prop_map(|(a, w, k)| Op::Deliver(a, w, k)),
                2 => (any::<bool>(), nonce.clone()).prop_map(|(a, v)| Op::SetRecv(a, v)),
                2 => (any::<bool>(), nonce).prop_map(|(a, v)| Op::SetSend(a, v)),
                1 => any::<bool>().prop_map(Op::RekeyOut),
                1 => any::<bool>().prop_map(Op::RekeyIn),
                1 => (0u8..3).prop_map(Op::ManualBoth),
                1 => (any::<bool>(), 0u8..3).prop_map(|(r, k)| Op::ManualOne(r, k)),
            ];
            (0usize..4, 0usize..24, any::<bool>(), any::<bool>(), prop::collection::vec(op, 0..30), any::<u64>()).prop_map(move |(p, suite_idx, ring, stateless, ops, seed)| Case {
                pattern: pats[p].to_string(),
                suite_idx,
                backend: if ring { Backend::RingFirst } else { Backend::Default },
                stateless,
                ops,
                seed,
            })
        },
        oracle,
    );
}

pub fn replay(ctx: &Ctx, sub: &str, case: &serde_json::Value, origin: &str) -> bool {
    ctx.replay_case::<Case, _>(sub, case, oracle, origin)
}
