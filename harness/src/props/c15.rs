//! C15 Rekey follows the specification and keeps or breaks sync as expected.

use super::common::*;
use super::PropDef;
use crate::engine::{expand, expand32, mix, Acc, CaseResult, Ctx, Fail};
use crate::instr::Backend;
use crate::refcrypto as rc;
use crate::refnoise::RefTransport;
use crate::sess::*;
use proptest::prelude::*;
use serde::{Deserialize, Serialize};

pub const DEF: PropDef = PropDef {
    id: "C15",
    run,
    replay,
    level: "exploration",
    rule: "model-based differential: op sequences over {write i->r, deliver oldest pending i->r, write r->i, deliver r->i, rekey_outgoing / rekey_incoming on either side, rekey_manually(Some/None, Some/None), rekey_initiator_manually, rekey_responder_manually with keys from a 10-element pool (three fresh keys, two of them sharing a 24-byte prefix, the session's two initial keys, all-zero / constant-fill keys and two keys of the form s||s)} - exhaustive to depth 4 (thorough 5) over a 12-symbol core alphabet (one level less for the one-way / K configurations) scenario lists with rekeys (automatic / manual, both sides / one side) issued while the counters stand at each of 13 values incl. 2^64-1 (the caller then moves them back), and random to depth 40 over the full set - for all ciphers x backends (default, ring-first, and a pass-through cipher wrapper that relies on the Cipher trait's PROVIDED rekey) x stateful/stateless x interactive/one-way. Model: per endpoint and direction one key value, initial keys from the reference model's Split(); auto rekey sets k <- ENCRYPT_ref(k, 2^64-1, '', 0^32)[..32] with the reference AEAD. Oracle: every written message equals ENCRYPT_ref(k_out, n, '', payload) byte for byte; a delivery is accepted iff the sender's key at write time equals the receiver's current key for that direction and the nonce matches; nonces are untouched by any rekey call. Non-trivial = the sequence contains a rekey and a later delivery; distinct by (config, sequence)",
    technique: "model-based differential testing against the reference AEAD/REKEY (unwrapped real backends); bounded-exhaustive + proptest",
    assumptions: &["REKEY is validated against the specification text only (section 4.2); no third-party vectors exist for it"],
    panic_is_violation: false,
    needs_refnoise: true,
};

#[derive(Clone, Copy, Debug, Serialize, Deserialize, PartialEq, Eq, Hash)]
pub enum Op {
    /// write in direction (false = i->r, true = r->i)
    Write(bool),
    Deliver(bool),
    /// (side is initiator?)
    RekeyOut(bool),
    RekeyIn(bool),
    /// rekey_manually(initiator key idx, responder key idx) on side
    Manual(bool, Option<u8>, Option<u8>),
    ManualI(bool, u8),
    ManualR(bool, u8),
    /// move sending and receiving counters of the direction (false = i->r) to a large value
    Jump(bool, u8),
}

#[derive(Clone, Debug, Serialize, Deserialize)]
pub struct Case {
    pub pattern: String,
    pub suite_idx: usize,
    pub backend: Backend,
    pub stateless: bool,
    pub ops: Vec<Op>,
    pub seed: u64,
}

enum T {
    F(snow::TransportState),
    L(snow::StatelessTransportState),
}

struct Msg {
    nonce: u64,
    key: [u8; 32],
    payload: Vec<u8>,
    bytes: Vec<u8>,
}

fn oracle(c: &Case, acc: &mut Acc) -> CaseResult {
    let suites = all_suites();
    let suite = suites[c.suite_idx % suites.len()];
    let mut spec = SessionSpec::simple(HsName { pattern: c.pattern.clone(), psks: vec![] }, suite, c.seed);
    if ring_covers(suite) || matches!(c.backend, Backend::PassThrough | Backend::OwnRekey) {
        spec.backend_i = c.backend;
        spec.backend_r = c.backend;
    }
    let name = format!("{} [{:?}] stateless={}", spec.name_string(), c.backend, c.stateless);
    let oneway = spec.pattern().is_oneway();
    // real endpoints (unwrapped backends) and the reference handshake side by side
    let mut pair = build_pair(&spec, None)?;
    let mut mi = build_ref(&spec, true, &EpOverrides::default()).map_err(|x| Fail::setup(format!("{x:?}")))?;
    let mut mr = build_ref(&spec, false, &EpOverrides::default()).map_err(|x| Fail::setup(format!("{x:?}")))?;
    for k in 0..spec.n_msgs() {
        let i_sends = k % 2 == 0;
        let (w, r, mw, mrd) = if i_sends { (&mut pair.i, &mut pair.r, &mut mi, &mut mr) } else { (&mut pair.r, &mut pair.i, &mut mr, &mut mi) };
        let m = hs_write(w, b"", 65535).map_err(|x| Fail::setup(e(&x)))?;
        hs_read(r, &m, 65535).map_err(|x| Fail::setup(e(&x)))?;
        let o = mw.write(Some(spec.e_priv(i_sends)), b"").map_err(|x| Fail::setup(format!("{x:?}")))?;
        if o.msg != m {
            return Err(Fail::setup(format!("{name}: handshake message {k} differs from the reference (C01's business); cannot anchor keys")));
        }
        mrd.read(&m).map_err(|x| Fail::setup(format!("{x:?}")))?;
    }
    let rt = RefTransport::from_hs(&mi);
    // model keys: key[side][dir], side 0 = initiator, dir 0 = i->r
    let mut key = [[rt.k_i2r, rt.k_r2i], [rt.k_i2r, rt.k_r2i]];
    let mut ts = if c.stateless {
        [
            T::L(pair.i.into_stateless_transport_mode().map_err(|x| Fail::setup(e(&x)))?),
            T::L(pair.r.into_stateless_transport_mode().map_err(|x| Fail::setup(e(&x)))?),
        ]
    } else {
        [T::F(pair.i.into_transport_mode().map_err(|x| Fail::setup(e(&x)))?), T::F(pair.r.into_transport_mode().map_err(|x| Fail::setup(e(&x)))?)]
    };
    // pool[3] / pool[4] are the session's own initial keys (Split() outputs): installing them
    // again after an automatic rekey must really go back to them
    // pool[5..] are structured keys: constant fill, all zero, and two keys of the form s || s
    // (a 128-bit secret repeated) - differences between them are the same in both halves
    let half_a = expand(c.seed, 903, 16);
    let half_b = expand(c.seed, 904, 16);
    let mut rep_a = [0u8; 32];
    let mut rep_b = [0u8; 32];
    rep_a[..16].copy_from_slice(&half_a);
    rep_a[16..].copy_from_slice(&half_a);
    rep_b[..16].copy_from_slice(&half_b);
    rep_b[16..].copy_from_slice(&half_b);
    let mut pool = [expand32(c.seed, 900), expand32(c.seed, 901), expand32(c.seed, 902), rt.k_i2r, rt.k_r2i, [0u8; 32], [1u8; 32], [2u8; 32], rep_a, rep_b];
    pool[0][0] = 0; // a key with a leading zero byte
    pool[1][31] = 0;
    // pool[2] shares its first 24 bytes with pool[1] (keys of the form secret || counter)
    let p1 = pool[1];
    pool[2][..24].copy_from_slice(&p1[..24]);
    let mut sn = [0u64; 2]; // per direction
    let mut rn = [0u64; 2];
    let mut pending: [std::collections::VecDeque<Msg>; 2] = [Default::default(), Default::default()];
    let mut rekeyed = false;
    let mut delivery_after_rekey = false;
    for (step, op) in c.ops.iter().enumerate() {
        let ctx = format!("{name} ops {:?} step {step} ({op:?})", c.ops);
        match op {
            Op::Write(d) => {
                let d = *d as usize;
                if oneway && d == 1 {
                    continue;
                }
                let s = d; // sender side index: dir 0 -> initiator(0), dir 1 -> responder(1)
                if sn[d] == u64::MAX {
                    continue; // the counter stands at the reserved value (C09's business): nothing to write
                }
                let payload = expand(c.seed, 100 + step as u64, step % 40);
                let got = match &mut ts[s] {
                    T::F(t) => t_write(t, &payload, payload.len() + 16),
                    T::L(t) => sl_write(t, sn[d], &payload, payload.len() + 16),
                }
                .map_err(|x| Fail::new(format!("{ctx}: write failed: {}", e(&x))))?;
                let want = rc::aead_encrypt(suite.cipher, &key[s][d], sn[d], &[], &payload);
                ensure!(
                    got == want,
                    "{ctx}: written message differs from ENCRYPT(k, n={}, '', payload) with the key the REKEY definition yields\n snow: {}\n spec: {}",
                    sn[d],
                    hexs(&got),
                    hexs(&want)
                );
                pending[d].push_back(Msg { nonce: sn[d], key: key[s][d], payload, bytes: got });
                sn[d] += 1;
            },
            Op::Deliver(d) => {
                let d = *d as usize;
                if oneway && d == 1 {
                    continue;
                }
                let r = 1 - d; // receiver side
                let Some(m) = pending[d].front() else { continue };
                let res = match &mut ts[r] {
                    T::F(t) => t_read(t, &m.bytes, m.payload.len()),
                    T::L(t) => sl_read(t, m.nonce, &m.bytes, m.payload.len()),
                };
                let nonce_ok = c.stateless || m.nonce == rn[d];
                let should = m.key == key[r][d] && nonce_ok;
                if should {
                    let p = res.map_err(|x| Fail::new(format!("{ctx}: sender and receiver keys agree (rekeys in sync) but the message was rejected: {}", e(&x))))?;
                    ensure!(p == m.payload, "{ctx}: payload differs");
                    if !c.stateless {
                        rn[d] += 1;
                    }
                    pending[d].pop_front();
                    if rekeyed {
                        delivery_after_rekey = true;
                    }
                } else {
                    ensure!(res.is_err(), "{ctx}: message accepted although the receiver's key differs from the sender's (out-of-sync rekey) or the nonce does not match");
                    if rekeyed {
                        delivery_after_rekey = true;
                    }
                }
            },
            Op::RekeyOut(side_i) => {
                let s = !*side_i as usize;
                let d = s; // outgoing direction of side s
                match &mut ts[s] {
                    T::F(t) => t.rekey_outgoing(),
                    T::L(t) => t.rekey_outgoing(),
                }
                key[s][d] = rc::rekey(suite.cipher, &key[s][d]);
                rekeyed = true;
            },
            Op::RekeyIn(side_i) => {
                let s = !*side_i as usize;
                let d = 1 - s;
                match &mut ts[s] {
                    T::F(t) => t.rekey_incoming(),
                    T::L(t) => t.rekey_incoming(),
                }
                key[s][d] = rc::rekey(suite.cipher, &key[s][d]);
                rekeyed = true;
            },
            Op::Manual(side_i, a, b) => {
                let s = !*side_i as usize;
                let ka = a.map(|i| pool[i as usize % 10]);
                let kb = b.map(|i| pool[i as usize % 10]);
                match &mut ts[s] {
                    T::F(t) => t.rekey_manually(ka.as_ref(), kb.as_ref()),
                    T::L(t) => t.rekey_manually(ka.as_ref(), kb.as_ref()),
                }
                if let Some(k) = ka {
                    key[s][0] = k;
                }
                if let Some(k) = kb {
                    key[s][1] = k;
                }
                rekeyed = true;
            },
            Op::ManualI(side_i, a) => {
                let s = !*side_i as usize;
                let k = pool[*a as usize % 10];
                match &mut ts[s] {
                    T::F(t) => t.rekey_initiator_manually(&k),
                    T::L(t) => t.rekey_initiator_manually(&k),
                }
                key[s][0] = k;
                rekeyed = true;
            },
            Op::Jump(d, which) => {
                let d = *d as usize;
                if (oneway && d == 1) || !pending[d].is_empty() {
                    continue; // only when nothing is in flight in that direction
                }
                // incl. the reserved value itself (rekeys issued while a counter stands there must take
                // effect all the same) and small values (the caller moves the counters back)
                let v = [254u64, 65534, (1 << 24) - 2, (1 << 31) - 2, (1 << 32) - 2, (1 << 32) + 7, (1 << 48) - 2, (1 << 63) - 2, u64::MAX - 40, u64::MAX, 3, u64::MAX, 1000][*which as usize % 13];
                sn[d] = v;
                rn[d] = v;
                let (s, r) = (d, 1 - d);
                if let T::F(t) = &mut ts[s] {
                    t.verif_set_sending_nonce(v);
                    if t.sending_nonce() != v {
                        return Err(Fail::setup(format!("{ctx}: the sending counter could not be placed at {v} (C09's business)")));
                    }
                }
                if let T::F(t) = &mut ts[r] {
                    t.set_receiving_nonce(v);
                    if t.receiving_nonce() != v {
                        return Err(Fail::setup(format!("{ctx}: the receiving counter could not be placed at {v} (C09's business)")));
                    }
                }
            },
            Op::ManualR(side_i, a) => {
                let s = !*side_i as usize;
                let k = pool[*a as usize % 10];
                match &mut ts[s] {
                    T::F(t) => t.rekey_responder_manually(&k),
                    T::L(t) => t.rekey_responder_manually(&k),
                }
                key[s][1] = k;
                rekeyed = true;
            },
        }
        // nonces untouched by rekeys (stateful: observable)
        if let (T::F(ti), T::F(tr)) = (&ts[0], &ts[1]) {
            ensure!(ti.sending_nonce() == sn[0] && tr.receiving_nonce() == rn[0], "{ctx}: i->r nonces (send {}, recv {}) differ from the model ({}, {})", ti.sending_nonce(), tr.receiving_nonce(), sn[0], rn[0]);
            if !oneway {
                ensure!(tr.sending_nonce() == sn[1] && ti.receiving_nonce() == rn[1], "{ctx}: r->i nonces (send {}, recv {}) differ from the model ({}, {})", tr.sending_nonce(), ti.receiving_nonce(), sn[1], rn[1]);
            }
        }
    }
    acc.label(format!("cipher:{}", suite.cipher.name()));
    acc.label(format!("backend:{:?}", if ring_covers(suite) { c.backend } else { Backend::Default }));
    acc.label(if c.stateless { "mode:stateless" } else { "mode:stateful" });
    if c.ops.iter().any(|o| matches!(o, Op::Manual(..) | Op::ManualI(..) | Op::ManualR(..))) {
        acc.label("has_manual_rekey");
    }
    if delivery_after_rekey {
        acc.nontrivial(&(name, c.ops.clone()));
    }
    Ok(())
}

fn core_alphabet() -> Vec<Op> {
    vec![
        Op::Write(false),
        Op::Deliver(false),
        Op::Write(true),
        Op::Deliver(true),
        Op::RekeyOut(true),
        Op::RekeyIn(false),
        Op::RekeyOut(false),
        Op::RekeyIn(true),
        Op::ManualI(true, 8),
        Op::ManualI(false, 8),
        Op::ManualI(true, 3),
        Op::ManualI(true, 9),
    ]
}

pub fn run(ctx: &Ctx) {
    let depth = ctx.tier.pick(4usize, 5);
    let alpha = core_alphabet();
    let per_cfg: usize = (0..=depth).map(|l| alpha.len().pow(l as u32)).sum();
    // configurations: 3 ciphers x {default, ring-first where ring has the cipher} x 2 modes
    let suites = all_suites();
    let mut cfgs: Vec<(usize, Backend, bool, &'static str)> = Vec::new();
    for (si, s) in suites.iter().enumerate() {
        if s.dh != crate::refcrypto::DhKind::X25519 || s.hash != crate::refcrypto::HashKind::Sha256 {
            continue;
        }
        for b in [Backend::Default, Backend::RingFirst] {
            if b == Backend::RingFirst && !ring_covers(*s) {
                continue;
            }
            for stateless in [false, true] {
                cfgs.push((si, b, stateless, "NN"));
                if b == Backend::Default {
                    cfgs.push((si, b, stateless, if stateless { "N" } else { "K" }));
                }
            }
        }
    }
    // a cipher supplied by the application that relies on the trait's PROVIDED rekey (pass-through
    // wrapper): the REKEY definition must hold there too (these run one level less deep)
    for (si, s) in suites.iter().enumerate() {
        if s.dh == crate::refcrypto::DhKind::X25519 && s.hash == crate::refcrypto::HashKind::Sha256 {
            cfgs.push((si, Backend::PassThrough, false, "XX"));
            cfgs.push((si, Backend::PassThrough, true, "XX"));
        }
    }
    // the NN configurations get the full depth, the one-way / K ones one level less
    let per_cfg_short: usize = (0..depth).map(|l| alpha.len().pow(l as u32)).sum();
    let deep: Vec<_> = cfgs.iter().filter(|c| c.3 == "NN").cloned().collect();
    let shallow: Vec<_> = cfgs.iter().filter(|c| c.3 != "NN").cloned().collect();
    ctx.note(format!("{} configurations x {} sequences (all sequences up to depth {}) + {} configurations x {} (depth {}) over a {}-symbol alphabet", deep.len(), per_cfg, depth, shallow.len(), per_cfg_short, depth - 1, alpha.len()));
    let seed = ctx.seed;
    {
        let alpha = alpha.clone();
        let n_deep = per_cfg * deep.len();
        ctx.run_indexed(
            "all_sequences",
            n_deep + per_cfg_short * shallow.len(),
            true,
            move |i| {
                let ((si, b, stateless, pat), mut idx) = if i < n_deep { (deep[i % deep.len()], i / deep.len()) } else { (shallow[(i - n_deep) % shallow.len()], (i - n_deep) / shallow.len()) };
                let a = alpha.len();
                let mut len = 0;
                let mut count = 1usize;
                while idx >= count {
                    idx -= count;
                    len += 1;
                    count *= a;
                }
                let mut ops = vec![alpha[0]; len];
                for p in (0..len).rev() {
                    ops[p] = alpha[idx % a];
                    idx /= a;
                }
                Case { pattern: pat.to_string(), suite_idx: si, backend: b, stateless, ops, seed: mix(seed, (i % 13) as u64) }
            },
            oracle,
        );
    }
    // rekeys issued while the counters stand at each of the jump values (incl. 2^64-1, after which
    // the caller moves them back): synchronised (both sides) and one-sided, automatic and manual
    {
        let mut sc = Vec::new();
        for (ci, (si, b, stateless, pat)) in cfgs.iter().enumerate() {
            for which in 0..13u8 {
                for kind in 0..4u8 {
                    for one_sided in [false, true] {
                        if (ci + which as usize + kind as usize) % ctx.tier.pick(3, 1) != 0 {
                            continue;
                        }
                        let mut ops = vec![Op::Write(false), Op::Deliver(false), Op::Jump(false, which)];
                        match kind {
                            0 => {
                                ops.push(Op::RekeyOut(true));
                                if !one_sided {
                                    ops.push(Op::RekeyIn(false));
                                }
                            },
                            1 => {
                                ops.push(Op::RekeyIn(false));
                                if !one_sided {
                                    ops.push(Op::RekeyOut(true));
                                }
                            },
                            2 => {
                                ops.push(Op::ManualI(true, 1));
                                if !one_sided {
                                    ops.push(Op::ManualI(false, 1));
                                }
                            },
                            _ => {
                                ops.push(Op::Manual(false, Some(0), Some(2)));
                                if !one_sided {
                                    ops.push(Op::Manual(true, Some(0), Some(2)));
                                }
                            },
                        }
                        // back to a usable counter, then traffic
                        ops.extend([Op::Jump(false, 12), Op::Write(false), Op::Deliver(false), Op::Write(false), Op::Deliver(false)]);
                        sc.push(Case { pattern: pat.to_string(), suite_idx: *si, backend: *b, stateless: *stateless, ops, seed: mix(seed, 9000 + (ci * 100 + which as usize * 8 + kind as usize) as u64) });
                    }
                }
            }
        }
        ctx.run_list("rekey_at_counter_values", &sc, false, oracle);
    }
    ctx.run_prop(
        "random_sequences",
        ctx.tier.pick(8000, 100_000),
        || {
            let k = || prop_oneof![Just(None), (0u8..10).prop_map(Some)];
            let op = prop_oneof![
                6 => any::<bool>().prop_map(Op::Write),
                6 => any::<bool>().prop_map(Op::Deliver),
                2 => any::<bool>().prop_map(Op::RekeyOut),
                2 => any::<bool>().prop_map(Op::RekeyIn),
                1 => (any::<bool>(), k(), k()).prop_map(|(s, a, b)| Op::Manual(s, a, b)),
                1 => (any::<bool>(), 0u8..10).prop_map(|(s, a)| Op::ManualI(s, a)),
                1 => (any::<bool>(), 0u8..10).prop_map(|(s, a)| Op::ManualR(s, a)),
                2 => (any::<bool>(), 0u8..13).prop_map(|(d, w)| Op::Jump(d, w)),
            ];
            (prop_oneof![3 => Just("NN"), 1 => Just("N"), 1 => Just("XX"), 1 => Just("K")], 0usize..24, any::<bool>(), any::<bool>(), prop::collection::vec(op, 0..40), any::<u64>()).prop_map(|(p, suite_idx, ring, stateless, ops, seed)| Case {
                pattern: p.to_string(),
                suite_idx,
                backend: if ring { Backend::RingFirst } else if seed % 5 == 0 { Backend::PassThrough } else { Backend::Default },
                stateless,
                ops,
                seed,
            })
        },
        oracle,
    );
}

pub fn replay(ctx: &Ctx, sub: &str, case: &serde_json::Value, origin: &str) -> bool {
    ctx.replay_case::<Case, _>(sub, case, oracle, origin)
}
