//! C08 A channel exists only if both sides agree on name, prologue, PSKs, static keys.

use super::common::*;
use super::PropDef;
use crate::engine::{mix, pick, Acc, CaseResult, Ctx, Fail};
use crate::refcrypto::{self as rc, CipherKind, HashKind};
use crate::sess::*;
use proptest::prelude::*;
use serde::{Deserialize, Serialize};

pub const DEF: PropDef = PropDef {
    id: "C08",
    run,
    replay,
    level: "exploration",
    rule: "negative differential: a consistent session spec (handshake string, suite, keys, PSKs, prologue) plus one disagreement between the peers (and random combinations of several): protocol name with identical structure but different string (modifier order permuted; custom names of equal length differing in one byte at any position incl. beyond HASHLEN, also non-ASCII names of HASHLEN characters but HASHLEN+2 bytes that differ in the last byte), different hash of equal length, different cipher, sibling pattern (deferred variant) with the same message count; prologue differing in one bit / in length / empty vs non-empty; one bit of one PSK; a different valid pre-shared static key on either side, the right key with one bit changed (X25519: bit 255, i.e. the same point in another encoding), the right P-256 key negated (same ECDH outputs, other bytes). Oracle: running the handshake as far as calls succeed never ends with both sides finished and no error; if both could be converted, no transport message of one is accepted by the other. The same spec WITHOUT the disagreement completes (control run in the same case). Non-trivial = control completes and the disagreement was applicable; distinct by (name, suite, disagreement)",
    technique: "negative differential testing (control session vs. session with one injected context disagreement); enumeration over all handshake strings + proptest combinations",
    assumptions: &["a pre-shared X25519 key with bit 255 set is judged as a different key: the specification hashes the key bytes as given (MixHash(rs) in the pre-message), so peers configured with different byte strings must not get a channel"],
    panic_is_violation: false,
    needs_refnoise: false,
};

#[derive(Clone, Debug, Serialize, Deserialize, PartialEq, Eq, Hash)]
pub enum Dis {
    ModOrder,
    /// custom names of length `len` that differ in the byte at `pos`
    CustomNameByte(usize, usize),
    Hash,
    Cipher,
    SiblingPattern,
    PrologueBit(usize, u8),
    PrologueLen(usize),
    PrologueEmptyVsNon,
    /// both prologues have `len` bytes (> 65535) and differ only in the last byte
    PrologueLongTail(usize),
    /// the responder's prologue is the initiator's (`len` bytes) plus a tail
    PrologueLongExtension(usize),
    /// the responder's prologue is the initiator's plus trailing zero bytes
    PrologueTrailingZeros(usize),
    PskBit(u8, usize),
    /// wrong pre-shared static key given to: true = the initiator, false = the responder
    StaticKey(bool),
    /// the pre-shared static key given to one side (true = the initiator) is the peer's key with
    /// one bit changed: bit 255 for X25519 (another encoding of the same point - the DH outputs
    /// agree, only the transcript can tell), `bit` for P-256 where applicable
    StaticKeyBit(bool, u16),
    /// P-256: the pre-shared static key given to one side is the peer's key NEGATED (x, p - y): a
    /// different, valid public key that yields the same ECDH outputs - only the transcript differs
    StaticKeyNegated(bool),
    /// custom names with non-ASCII characters: HASHLEN characters but HASHLEN+2 bytes, differing
    /// only in the last byte (beyond HASHLEN bytes; a name longer than HASHLEN BYTES is hashed)
    CustomNameUnicode,
}

#[derive(Clone, Debug, Serialize, Deserialize)]
pub struct Case {
    pub spec: SessionSpec,
    pub dis: Vec<Dis>,
}

fn sibling(p: &str) -> Option<&'static str> {
    Some(match p {
        "NK" => "NK1",
        "NX" => "NX1",
        "XK" => "XK1",
        "KK" => "KK1",
        "IK" => "IK1",
        "IX" => "IX1",
        "KX" => "KX1",
        "K1K" => "K1K1",
        "I1K" => "I1K1",
        "I1X" => "I1X1",
        "K1X" => "K1X1",
        "X1K" => "X1K1",
        "X1X" => "X1X1",
        "N" => "X", // one message each; X additionally sends s
        "NN" => "NX",
        "KN" => "KX",
        "IN" => "IX",
        _ => return None,
    })
}

/// Apply the disagreements to the RESPONDER's (or, for StaticKey(true), the initiator's) view.
/// Returns (spec_i, ov_i, spec_r, ov_r) or None if not applicable.
fn apply(spec: &SessionSpec, dis: &[Dis]) -> Option<(SessionSpec, EpOverrides, SessionSpec, EpOverrides)> {
    let mut si = spec.clone();
    let mut sr = spec.clone();
    let mut oi = EpOverrides::default();
    let mut or = EpOverrides::default();
    for d in dis {
        match d {
            Dis::ModOrder => {
                if spec.hs.psks.len() < 2 {
                    return None;
                }
                sr.mod_order.rotate_left(1);
            },
            Dis::CustomNameByte(len, pos) => {
                si.custom_name_len = Some(*len);
                sr.custom_name_len = Some(*len);
                let mut n = sr.name_string().into_bytes();
                let p = *pos % n.len();
                n[p] = if n[p] == b'Z' { b'Y' } else { b'Z' };
                // custom names are installed through the `name` override below
                oi.name = None;
                or.name = Some(String::from_utf8(n).ok()?);
            },
            Dis::Hash => {
                sr.suite.hash = match spec.suite.hash {
                    HashKind::Sha256 => HashKind::Blake2s,
                    HashKind::Blake2s => HashKind::Sha256,
                    HashKind::Sha512 => HashKind::Blake2b,
                    HashKind::Blake2b => HashKind::Sha512,
                };
            },
            Dis::Cipher => {
                sr.suite.cipher = match spec.suite.cipher {
                    CipherKind::ChaChaPoly => CipherKind::AesGcm,
                    CipherKind::AesGcm => CipherKind::XChaChaPoly,
                    CipherKind::XChaChaPoly => CipherKind::ChaChaPoly,
                };
            },
            Dis::SiblingPattern => {
                let sib = sibling(&spec.hs.pattern)?;
                sr.hs.pattern = sib.to_string();
            },
            Dis::PrologueBit(pos, bit) => {
                let mut p = spec.prologue();
                if p.is_empty() {
                    return None;
                }
                let i = *pos % p.len();
                p[i] ^= 1 << (bit % 8);
                or.prologue = Some(p);
            },
            Dis::PrologueLen(extra) => {
                let mut p = spec.prologue();
                p.extend(std::iter::repeat(0u8).take(1 + *extra % 40));
                or.prologue = Some(p);
            },
            Dis::PrologueEmptyVsNon => {
                if spec.prologue().is_empty() {
                    or.prologue = Some(vec![0u8]);
                } else {
                    or.prologue = Some(vec![]);
                }
            },
            Dis::PrologueLongTail(len) => {
                let base = crate::engine::expand(spec.key_seed, 7, *len);
                let mut p = base.clone();
                let l = p.len();
                p[l - 1] ^= 0x80;
                oi.prologue = Some(base);
                or.prologue = Some(p);
            },
            Dis::PrologueLongExtension(len) => {
                let base = crate::engine::expand(spec.key_seed, 7, *len);
                let mut p = base.clone();
                p.extend_from_slice(b"tail beyond the first 64 KiB....");
                oi.prologue = Some(base);
                or.prologue = Some(p);
            },
            Dis::PrologueTrailingZeros(n) => {
                let mut p = spec.prologue();
                p.extend(std::iter::repeat(0u8).take(1 + *n % 70));
                or.prologue = Some(p);
            },
            Dis::PskBit(which, bit) => {
                if spec.hs.psks.is_empty() {
                    return None;
                }
                let n = spec.hs.psks[*which as usize % spec.hs.psks.len()];
                let mut k = spec.psk(n);
                k[(*bit / 8) % 32] ^= 1 << (bit % 8);
                or.psk_values.push((n, k));
            },
            Dis::StaticKey(to_initiator) => {
                let pat = spec.pattern();
                if !pat.role_needs_remote_static(*to_initiator) {
                    return None;
                }
                let wrong = rc::dh_pub(spec.suite.dh, &priv_from_seed(spec.suite.dh, spec.key_seed, 4242)).unwrap();
                if *to_initiator {
                    oi.rs_value = Some(wrong);
                } else {
                    or.rs_value = Some(wrong);
                }
            },
            Dis::CustomNameUnicode => {
                let hl = spec.suite.hash.hash_len();
                let mut base: String = spec.canonical_name().chars().filter(|c| c.is_ascii()).collect();
                while base.len() < hl - 3 {
                    base.push('x');
                }
                base.truncate(hl - 3);
                base.push_str("\u{44e}\u{433}"); // two 2-byte characters: hl-1 characters, hl+1 bytes
                si.custom_name_len = Some(hl + 2);
                sr.custom_name_len = Some(hl + 2);
                oi.name = Some(format!("{base}1"));
                or.name = Some(format!("{base}2"));
            },
            Dis::StaticKeyNegated(to_initiator) => {
                let pat = spec.pattern();
                if !pat.role_needs_remote_static(*to_initiator) || spec.suite.dh != crate::refcrypto::DhKind::P256 {
                    return None;
                }
                let mut k = spec.s_pub(!*to_initiator);
                // p = 2^256 - 2^224 + 2^192 + 2^96 - 1 (big endian)
                let p: [u8; 32] = [0xff, 0xff, 0xff, 0xff, 0x00, 0x00, 0x00, 0x01, 0, 0, 0, 0, 0, 0, 0, 0, 0, 0, 0, 0, 0xff, 0xff, 0xff, 0xff, 0xff, 0xff, 0xff, 0xff, 0xff, 0xff, 0xff, 0xff];
                let mut borrow = 0i32;
                for i in (0..32).rev() {
                    let d = p[i] as i32 - k[33 + i] as i32 - borrow;
                    if d < 0 {
                        k[33 + i] = (d + 256) as u8;
                        borrow = 1;
                    } else {
                        k[33 + i] = d as u8;
                        borrow = 0;
                    }
                }
                if *to_initiator {
                    oi.rs_value = Some(k);
                } else {
                    or.rs_value = Some(k);
                }
            },
            Dis::StaticKeyBit(to_initiator, bit) => {
                let pat = spec.pattern();
                if !pat.role_needs_remote_static(*to_initiator) {
                    return None;
                }
                let mut k = spec.s_pub(!*to_initiator);
                if spec.suite.dh == crate::refcrypto::DhKind::X25519 {
                    k[31] ^= 0x80;
                } else {
                    // P-256: a bit of the x coordinate (almost always an invalid point: the
                    // handshake must then fail at the DH, which is fine) or of the y coordinate
                    let b = 8 + (*bit as usize % 512);
                    k[b / 8] ^= 1 << (b % 8);
                }
                if *to_initiator {
                    oi.rs_value = Some(k);
                } else {
                    or.rs_value = Some(k);
                }
            },
        }
    }
    Some((si, oi, sr, or))
}

/// snow endpoint with a completely custom name string (public NoiseParams::new).
fn build_named(spec: &SessionSpec, initiator: bool, ov: &EpOverrides) -> Result<snow::HandshakeState, snow::Error> {
    match (&ov.name, spec.custom_name_len) {
        (Some(n), Some(_)) => {
            // name override that is not parseable: construct through NoiseParams::new
            let p: snow::params::NoiseParams = spec.canonical_name().parse()?;
            #[cfg(not(feature = "hfs"))]
            let np = snow::params::NoiseParams::new(n.clone(), p.base, p.handshake, p.dh, p.cipher, p.hash);
            #[cfg(feature = "hfs")]
            let np = snow::params::NoiseParams::new(n.clone(), p.base, p.handshake, p.dh, p.kem, p.cipher, p.hash);
            let mut ov2 = ov.clone();
            ov2.name = None;
            build_with_params(spec, initiator, &ov2, np)
        },
        _ => build_snow(spec, initiator, ov, &Instr::none()),
    }
}

fn build_with_params(spec: &SessionSpec, initiator: bool, ov: &EpOverrides, np: snow::params::NoiseParams) -> Result<snow::HandshakeState, snow::Error> {
    let pat = spec.pattern();
    let mut b = snow::Builder::new(np);
    let s_priv = spec.s_priv(initiator);
    let rs_pub = ov.rs_value.clone().unwrap_or_else(|| spec.s_pub(!initiator));
    let prologue = ov.prologue.clone().unwrap_or_else(|| spec.prologue());
    let e_priv = spec.e_priv(initiator);
    let mut psks: Vec<(u8, [u8; 32])> = Vec::new();
    for &n in &spec.hs.psks {
        let v = ov.psk_values.iter().find(|(i, _)| *i == n).map(|x| x.1).unwrap_or_else(|| spec.psk(n));
        psks.push((n, v));
    }
    if pat.role_uses_static(initiator) {
        b = b.local_private_key(&s_priv)?;
    }
    if pat.role_needs_remote_static(initiator) {
        b = b.remote_public_key(&rs_pub)?;
    }
    if !prologue.is_empty() {
        b = b.prologue(&prologue)?;
    }
    for (n, v) in &psks {
        b = b.psk(*n, v)?;
    }
    b = b.fixed_ephemeral_key_for_testing_only(&e_priv);
    if initiator {
        b.build_initiator()
    } else {
        b.build_responder()
    }
}

/// Run as far as calls succeed. Returns (both finished without any error, hs objects)
fn run_pair(mut hi: snow::HandshakeState, mut hr: snow::HandshakeState, spec: &SessionSpec) -> (bool, snow::HandshakeState, snow::HandshakeState) {
    let mut idx = 0;
    let mut ok = true;
    while !(hi.is_handshake_finished() && hr.is_handshake_finished()) && idx < 8 {
        let (w, r) = if idx % 2 == 0 { (&mut hi, &mut hr) } else { (&mut hr, &mut hi) };
        let m = match hs_write(w, &spec.payload(idx, 6), 65535) {
            Ok(m) => m,
            Err(_) => {
                ok = false;
                break;
            },
        };
        if hs_read(r, &m, 65535).is_err() {
            ok = false;
            break;
        }
        idx += 1;
    }
    (ok && hi.is_handshake_finished() && hr.is_handshake_finished(), hi, hr)
}

fn oracle(c: &Case, acc: &mut Acc) -> CaseResult {
    let spec = &c.spec;
    let name = spec.name_string();
    let Some((si, oi, sr, or)) = apply(spec, &c.dis) else {
        acc.skip("disagreement not applicable to this configuration");
        return Ok(());
    };
    // control: without the disagreement the session completes
    // control: both sides with the initiator's view of the context
    let ctl_ov = EpOverrides { prologue: oi.prologue.clone(), ..Default::default() };
    let ci = build_snow(spec, true, &ctl_ov, &Instr::none()).map_err(|x| Fail::setup(format!("control build {name}: {}", e(&x))))?;
    let cr = build_snow(spec, false, &ctl_ov, &Instr::none()).map_err(|x| Fail::setup(format!("control build {name}: {}", e(&x))))?;
    let (ctl, _, _) = run_pair(ci, cr, spec);
    if !ctl {
        return Err(Fail::setup(format!("{name}: control session (no disagreement) does not complete")));
    }
    if c.dis.iter().any(|d| matches!(d, Dis::CustomNameByte(..))) {
        // control for custom names: both with the same custom name must complete
        let a = build_named(&si, true, &EpOverrides::default()).map_err(|x| Fail::setup(e(&x)))?;
        let b = build_named(&si, false, &EpOverrides::default()).map_err(|x| Fail::setup(e(&x)))?;
        let (ok, _, _) = run_pair(a, b, &si);
        if !ok {
            return Err(Fail::setup(format!("{name}: control session with equal custom names does not complete")));
        }
    }
    let hi = match build_named(&si, true, &oi) {
        Ok(h) => h,
        Err(_) => {
            acc.label("ended_at:build");
            acc.nontrivial(&(name, spec.suite, c.dis.clone()));
            return Ok(());
        },
    };
    let hr = match build_named(&sr, false, &or) {
        Ok(h) => h,
        Err(_) => {
            acc.label("ended_at:build");
            acc.nontrivial(&(name, spec.suite, c.dis.clone()));
            return Ok(());
        },
    };
    let (both, hi, hr) = run_pair(hi, hr, spec);
    if both {
        // the statement's second clause, for a better message
        let mut accepted = false;
        if let (Ok(mut ti), Ok(mut tr)) = (hi.into_transport_mode(), hr.into_transport_mode()) {
            if let Ok(m) = t_write(&mut ti, b"hello", 64) {
                accepted |= t_read(&mut tr, &m, 64).is_ok();
            }
        }
        fail!(
            "{name}: peers disagree on {:?} (initiator name '{}', responder name '{}') yet the handshake completed on both sides without any error (transport message accepted: {accepted})",
            c.dis,
            oi.name.clone().unwrap_or_else(|| si.name_string()),
            or.name.clone().unwrap_or_else(|| sr.name_string())
        );
    }
    // one side may have finished alone (one-way initiator): its transport messages must not be accepted
    for d in &c.dis {
        acc.label(format!("dis:{}", format!("{d:?}").split('(').next().unwrap()));
    }
    acc.label(format!("n_disagreements:{}", c.dis.len()));
    acc.nontrivial(&(name, spec.suite, c.dis.clone()));
    Ok(())
}

fn kinds_for(spec: &SessionSpec, k: u64) -> Vec<Dis> {
    let hl = spec.suite.hash.hash_len();
    vec![
        Dis::ModOrder,
        Dis::CustomNameByte(hl, (k % hl as u64) as usize),
        Dis::CustomNameByte(hl + 40, hl + (k % 40) as usize), // differs only beyond HASHLEN
        Dis::CustomNameByte(hl + 40, (k % hl as u64) as usize),
        Dis::CustomNameByte(hl - 5, hl - 6),
        Dis::Hash,
        Dis::Cipher,
        Dis::SiblingPattern,
        Dis::PrologueBit(k as usize, (k % 8) as u8),
        Dis::PrologueLen(k as usize),
        Dis::PrologueEmptyVsNon,
        Dis::PrologueTrailingZeros(k as usize),
        Dis::PskBit((k % 5) as u8, (k % 256) as usize),
        Dis::StaticKey(true),
        Dis::StaticKey(false),
        Dis::StaticKeyBit(true, k as u16),
        Dis::StaticKeyBit(false, (k * 3) as u16),
        Dis::StaticKeyNegated(true),
        Dis::StaticKeyNegated(false),
        Dis::CustomNameUnicode,
    ]
}

pub fn run(ctx: &Ctx) {
    let names = all_hs_names();
    let suites = all_suites();
    let mut cases = Vec::new();
    for (ni, hs) in names.iter().enumerate() {
        for k in 0..ctx.tier.pick(3usize, 8) {
            let suite = suites[(ni * 5 + k * 7) % suites.len()];
            let mut spec = SessionSpec::simple(hs.clone(), suite, mix(ctx.seed, (ni * 7 + k) as u64));
            spec.prologue_len = [0usize, 12, 100][(ni + k) % 3];
            for d in kinds_for(&spec, mix(ctx.seed, ni as u64) % 1000) {
                if spec.prologue_len == 0 && matches!(d, Dis::PrologueBit(..)) {
                    let mut s2 = spec.clone();
                    s2.prologue_len = 20;
                    cases.push(Case { spec: s2, dis: vec![d] });
                } else {
                    cases.push(Case { spec: spec.clone(), dis: vec![d] });
                }
            }
        }
    }
    // very long prologues (hashing them is the expensive part, so only on a rotating subset of names)
    for (ni, hs) in names.iter().enumerate() {
        if ni % ctx.tier.pick(12, 2) != (ctx.seed as usize) % ctx.tier.pick(12, 2) {
            continue;
        }
        let suite = suites[(ni * 5) % suites.len()];
        let spec = SessionSpec::simple(hs.clone(), suite, mix(ctx.seed, 9000 + ni as u64));
        for len in [65535usize, 65536, 70000, 131072] {
            cases.push(Case { spec: spec.clone(), dis: vec![Dis::PrologueLongTail(len.max(65536))] });
            cases.push(Case { spec: spec.clone(), dis: vec![Dis::PrologueLongExtension(len)] });
        }
    }
    ctx.run_list("single_disagreements", &cases, false, oracle);
    let names = std::sync::Arc::new(names);
    let seed = ctx.seed;
    ctx.run_prop(
        "random_combinations",
        ctx.tier.pick(10_000, 150_000),
        || {
            let names = names.clone();
            (any::<u16>(), 0usize..24, any::<u64>(), prop::collection::vec((0usize..15, any::<u64>()), 1..4), 0usize..3).prop_map(move |(ni, si, ks, ds, pl)| {
                let suites = all_suites();
                let mut spec = SessionSpec::simple(names[pick(ni, names.len())].clone(), suites[si], mix(seed, ks));
                spec.prologue_len = [0usize, 7, 150][pl];
                let mut dis: Vec<Dis> = Vec::new();
                for (k, r) in ds {
                    let d = kinds_for(&spec, r % 1000)[k].clone();
                    // at most one name-level disagreement and one prologue-level one
                    let name_level = |x: &Dis| matches!(x, Dis::ModOrder | Dis::CustomNameByte(..) | Dis::Hash | Dis::Cipher | Dis::SiblingPattern);
                    let pro_level = |x: &Dis| matches!(x, Dis::PrologueBit(..) | Dis::PrologueLen(_) | Dis::PrologueEmptyVsNon | Dis::PrologueTrailingZeros(_) | Dis::PrologueLongTail(_) | Dis::PrologueLongExtension(_));
                    if (name_level(&d) && dis.iter().any(name_level)) || (pro_level(&d) && dis.iter().any(pro_level)) || dis.contains(&d) {
                        continue;
                    }
                    dis.push(d);
                }
                Case { spec, dis }
            })
        },
        oracle,
    );
}

pub fn replay(ctx: &Ctx, sub: &str, case: &serde_json::Value, origin: &str) -> bool {
    ctx.replay_case::<Case, _>(sub, case, oracle, origin)
}
