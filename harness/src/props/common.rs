//! Small helpers shared by the checks: snow calls with explicit buffer sizes.

use snow::{HandshakeState, StatelessTransportState, TransportState};

pub fn hs_write(hs: &mut HandshakeState, payload: &[u8], buf: usize) -> Result<Vec<u8>, snow::Error> {
    let mut out = vec![0u8; buf];
    let n = hs.write_message(payload, &mut out)?;
    out.truncate(n);
    Ok(out)
}

pub fn hs_read(hs: &mut HandshakeState, msg: &[u8], buf: usize) -> Result<Vec<u8>, snow::Error> {
    let mut out = vec![0u8; buf];
    let n = hs.read_message(msg, &mut out)?;
    out.truncate(n);
    Ok(out)
}

pub fn t_write(t: &mut TransportState, payload: &[u8], buf: usize) -> Result<Vec<u8>, snow::Error> {
    let mut out = vec![0u8; buf];
    let n = t.write_message(payload, &mut out)?;
    out.truncate(n);
    Ok(out)
}

pub fn t_read(t: &mut TransportState, msg: &[u8], buf: usize) -> Result<Vec<u8>, snow::Error> {
    let mut out = vec![0u8; buf];
    let n = t.read_message(msg, &mut out)?;
    out.truncate(n);
    Ok(out)
}

pub fn sl_write(t: &StatelessTransportState, n: u64, payload: &[u8], buf: usize) -> Result<Vec<u8>, snow::Error> {
    let mut out = vec![0u8; buf];
    let l = t.write_message(n, payload, &mut out)?;
    out.truncate(l);
    Ok(out)
}

pub fn sl_read(t: &StatelessTransportState, n: u64, msg: &[u8], buf: usize) -> Result<Vec<u8>, snow::Error> {
    let mut out = vec![0u8; buf];
    let l = t.read_message(n, msg, &mut out)?;
    out.truncate(l);
    Ok(out)
}

pub fn hexs(b: &[u8]) -> String {
    if b.len() <= 48 {
        hex::encode(b)
    } else {
        format!("{}..({} bytes)", hex::encode(&b[..48]), b.len())
    }
}

/// First index at which two byte strings differ (or the shorter length).
pub fn first_diff(a: &[u8], b: &[u8]) -> usize {
    a.iter().zip(b.iter()).position(|(x, y)| x != y).unwrap_or(a.len().min(b.len()))
}

use crate::engine::{catch, loc_class, Fail};

/// Run one public-API call; a panic becomes a `Fail` whose signature names the operation,
/// the source file of the panic and its message (the key used by known_findings.json).
pub fn call<T>(op: &str, f: impl FnOnce() -> T) -> Result<T, Fail> {
    match catch(f) {
        Ok(v) => Ok(v),
        Err(p) => {
            let msg: String = p.msg.chars().take(120).collect();
            Err(Fail::with_sig(
                format!("panic in {op}: '{}' at {}", p.msg, p.loc),
                format!("panic|{op}|{}|{}", loc_class(&p.loc), msg),
            ))
        },
    }
}
