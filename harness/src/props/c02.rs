//! C02 Honest sessions complete, agree, and deliver every payload intact (round trip).

use super::common::*;
use super::PropDef;
use crate::engine::{expand, mix, pick, Acc, CaseResult, Ctx, Fail, Tier};
use crate::instr::{Backend, SharedRng, VResolver, BACKENDS};
use crate::refnoise as rn;
use crate::sess::*;
use proptest::prelude::*;
use serde::{Deserialize, Serialize};
use std::sync::Arc;

pub const DEF: PropDef = PropDef {
    id: "C02",
    run,
    replay,
    level: "exploration",
    rule: "cases = (protocol name, suite, backend pair, payload length per handshake message in 0..=max, transport script of up to 30 messages with direction interleaving, stateful/stateless per side, stateless nonce choice and delivery order, whether the peer's true static key is ALSO supplied up front where the pattern transmits it (pinning), how the PSKs reach each side: at build time, or by set_psk just before the first message that needs them on the initiator only / the responder only / both); in a quarter of the cases the caller first offers a buffer one byte too small to each handshake write and read and then repeats the call properly (caller-side retries; the messages are still exchanged unmodified); static keys come from Builder::generate_keypair (in one session out of eight both sides hold the same pair) and ephemerals from the library's own OS RNG (recorded); non-trivial = session finished on both sides and at least one transport message delivered; distinct by (name, suite, payload length vector, transport script)",
    technique: "round-trip property over generated honest sessions with real randomness (proptest + name-space enumeration); pattern message counts from an independent table",
    assumptions: &["the number of messages per pattern is taken from the harness's own transcription of the specification's pattern table"],
    panic_is_violation: true,
    needs_refnoise: false,
};

#[derive(Clone, Debug, Serialize, Deserialize)]
pub struct Case {
    /// handshake string (pattern + modifiers, may include hfs in the hfs build)
    pub hs: String,
    pub pattern: String,
    pub psks: Vec<u8>,
    pub suite: rn::Suite,
    pub hfs: bool,
    pub backend_i: Backend,
    pub backend_r: Backend,
    pub payload_classes: Vec<u8>,
    pub fill: u64,
    /// transport script: (initiator sends?, length class)
    pub transport: Vec<(bool, u8)>,
    pub stateless_i: bool,
    pub stateless_r: bool,
    /// 0 in-order delivery, 1 reversed, 2 pseudo-random (only towards a stateless receiver)
    pub delivery: u8,
    /// arbitrary (distinct) nonces when both sender and receiver of a direction are stateless
    pub wild_nonces: bool,
    pub prologue_len: usize,
    /// content seed for payloads/psks/prologue (keys and ephemerals are really random)
    pub seed: u64,
    /// Some(k): instead of random keys, the k-th pre-computed key pair whose DH output has leading /
    /// trailing zero bytes is used for the static AND (through a scripted RNG) the ephemeral keys -
    /// values the key generator and the RNG can produce, with probability 2^-8 .. 2^-16 per DH
    #[serde(default)]
    pub shaped: Option<u64>,
}

fn name_of(c: &Case) -> String {
    if c.hfs {
        format!("Noise_{}_{}+Kyber1024_{}_{}", c.hs, c.suite.dh.name(), c.suite.cipher.name(), c.suite.hash.name())
    } else {
        proto_name(&c.hs, c.suite)
    }
}

enum T {
    Sf(snow::TransportState),
    Sl(snow::StatelessTransportState),
}

pub fn oracle(c: &Case, acc: &mut Acc) -> CaseResult {
    let name = name_of(c);
    let pat = rn::pattern(&c.pattern).ok_or("pattern")?;
    let nm = pat.msgs.len();
    let params = |n: &str| -> Result<snow::params::NoiseParams, Fail> {
        n.parse().map_err(|e| Fail::new(format!("{n}: supported name does not parse: {e:?}")))
    };
    // static keys from the library's own key generation
    let rng_k = SharedRng::os();
    let kb = snow::Builder::with_resolver(params(&name)?, Box::new(VResolver::new(Backend::Default, Some(rng_k.clone()), None)));
    let mut ki = kb.generate_keypair().map_err(|e| Fail::new(format!("{name}: generate_keypair: {e:?}")))?;
    let mut kr = kb.generate_keypair().map_err(|e| Fail::new(format!("{name}: generate_keypair: {e:?}")))?;
    let shaped_keys = c.shaped.and_then(|k| {
        let seed = k * 32 + 5;
        Some((golden_shaped(c.suite.dh, seed, true)?, golden_shaped(c.suite.dh, seed, false)?))
    });
    if let Some((a, b)) = shaped_keys {
        ki = snow::Keypair { private: a.to_vec(), public: crate::refcrypto::dh_pub(c.suite.dh, &a).ok_or("shaped key")? };
        kr = snow::Keypair { private: b.to_vec(), public: crate::refcrypto::dh_pub(c.suite.dh, &b).ok_or("shaped key")? };
    }
    // one session in eight: both parties hold the SAME static key pair (a node talking to itself,
    // a cluster-wide identity): still a consistent configuration
    if (c.fill / 11) % 8 == 3 {
        kr = snow::Keypair { private: ki.private.clone(), public: ki.public.clone() };
        acc.label("static_keys:same_pair_on_both_sides");
    }
    let prologue = expand(c.seed, 7, c.prologue_len);
    // one session in 16 uses an all-zero first PSK, one in 16 an all-ones one
    let psks: Vec<(u8, [u8; 32])> = c
        .psks
        .iter()
        .enumerate()
        .map(|(k, n)| {
            (*n, match (k, c.seed % 16) {
                (0, 9) => [0u8; 32],
                (0, 10) => [0xffu8; 32],
                _ => crate::engine::expand32(c.seed, 100 + *n as u64),
            })
        })
        .collect();
    let (rng_i, rng_r) = match shaped_keys {
        Some((a, b)) => {
            let (ri, rr) = (SharedRng::seeded(1, false), SharedRng::seeded(2, false));
            ri.script(&a);
            rr.script(&b);
            (ri, rr)
        },
        None => (SharedRng::os(), SharedRng::os()),
    };
    // how the PSKs reach each side (derived from `fill`): at build time, or by set_psk just before
    // the first message whose pattern has that psk token - on one side only or on both
    let late_mode = if c.psks.is_empty() { 0 } else { (c.fill / 7) % 4 };
    let (late_i, late_r) = (late_mode == 1 || late_mode == 3, late_mode == 2 || late_mode == 3);
    let pin_rs = (c.fill / 29) % 3 == 1;
    if pin_rs {
        acc.label("remote_static:pinned_although_transmitted");
    }
    let build = |init: bool| -> Result<snow::HandshakeState, Fail> {
        let (me, peer, be, rng) = if init { (&ki, &kr, c.backend_i, &rng_i) } else { (&kr, &ki, c.backend_r, &rng_r) };
        let mut b = snow::Builder::with_resolver(params(&name)?, Box::new(VResolver::new(be, Some(rng.clone()), None)));
        if pat.role_uses_static(init) {
            b = b.local_private_key(&me.private).map_err(|e| Fail::new(format!("{e:?}")))?;
        }
        if pat.role_needs_remote_static(init) || (pin_rs && pat.role_uses_static(!init)) {
            // `pin_rs`: the application also supplies the peer's TRUE static key where the pattern
            // transmits it anyway (key pinning) - consistent keys in the sense of the statement
            b = b.remote_public_key(&peer.public).map_err(|e| Fail::new(format!("{e:?}")))?;
        }
        if !prologue.is_empty() {
            b = b.prologue(&prologue).map_err(|e| Fail::new(format!("{e:?}")))?;
        }
        let late = if init { late_i } else { late_r };
        for (n, k) in &psks {
            if late {
                continue;
            }
            b = b.psk(*n, k).map_err(|e| Fail::new(format!("{e:?}")))?;
        }
        let r = if init { b.build_initiator() } else { b.build_responder() };
        r.map_err(|e| Fail::new(format!("{name}: consistent configuration fails to build ({}): {e:?}", if init { "initiator" } else { "responder" })))
    };
    let mut hi = build(true)?;
    let mut hr = build(false)?;
    let keyinfo = || {
        format!(
            "static keys: i={} r={}; ephemeral draws i={:?} r={:?}",
            hex::encode(&ki.private),
            hex::encode(&kr.private),
            rng_i.draws().iter().map(hex::encode).collect::<Vec<_>>(),
            rng_r.draws().iter().map(hex::encode).collect::<Vec<_>>()
        )
    };
    let lay = if c.hfs { None } else { Some(rn::layouts(&pat.with_psks(&c.psks).ok_or("psk set")?, c.suite.dh)) };
    let mut plens = Vec::new();
    let toks_all = pat.with_psks(&c.psks).ok_or("psk set")?;
    acc.label(format!("psk_supply:{}", ["build/none", "initiator_late", "responder_late", "both_late"][late_mode as usize]));
    for idx in 0..nm {
        ensure!(!hi.is_handshake_finished() && !hr.is_handshake_finished(), "{name}: finished reported before message {idx} of {nm}; {}", keyinfo());
        let max = match &lay {
            Some(l) => 65535 - l[idx].overhead,
            None => 1000,
        };
        let cls = c.payload_classes[idx % c.payload_classes.len()];
        let plen = len_class(cls, max, c.fill.wrapping_add(idx as u64 * 31));
        plens.push(plen);
        let payload = expand(c.seed, 1000 + idx as u64, plen);
        let i_sends = idx % 2 == 0;
        if late_mode != 0 {
            for t in &toks_all[idx] {
                if let rn::Tok::Psk(n) = t {
                    let k = psks.iter().find(|p| p.0 == *n).ok_or("psk")?.1;
                    if late_i {
                        hi.set_psk(*n as usize, &k).map_err(|e| Fail::new(format!("{name}: set_psk({n}) on the initiator before message {idx}: {e:?}")))?;
                    }
                    if late_r {
                        hr.set_psk(*n as usize, &k).map_err(|e| Fail::new(format!("{name}: set_psk({n}) on the responder before message {idx}: {e:?}")))?;
                    }
                }
            }
        }
        let (w, r) = if i_sends { (&mut hi, &mut hr) } else { (&mut hr, &mut hi) };
        ensure!(w.is_my_turn() && !r.is_my_turn(), "{name}: turn indicators wrong before message {idx}");
        // caller-side retries (a quarter of the cases): the application first offers a buffer one
        // byte too small for the message, resp. for the payload, and then repeats the call properly -
        // the messages are still exchanged unmodified, so the session must complete all the same
        let retries = (c.fill / 13) % 4 == 1 && c.shaped.is_none();
        if retries {
            if let Some(l) = &lay {
                let need = l[idx].overhead + plen;
                match hs_write(w, &payload, need - 1) {
                    Err(_) => acc.label("caller_retry:write into a buffer one byte too small, then repeated"),
                    Ok(_) => return Err(Fail::setup(format!("{name}: write of message {idx} into {} bytes succeeded although {need} are needed (C14's business)", need - 1))),
                }
            }
        }
        let msg = hs_write(w, &payload, 65535 + 16)
            .map_err(|e| Fail::new(format!("{name}: honest write of message {idx} (payload {plen} of max {max}) failed: {e:?}; {}", keyinfo())))?;
        if let Some(l) = &lay {
            ensure!(msg.len() == l[idx].overhead + plen, "{name}: message {idx} has length {} but overhead {} + payload {plen} expected", msg.len(), l[idx].overhead);
        }
        if retries && plen > 0 {
            match hs_read(r, &msg, plen - 1) {
                Err(_) => acc.label("caller_retry:read into a payload buffer one byte too small, then repeated"),
                Ok(_) => return Err(Fail::setup(format!("{name}: read of message {idx} into a payload buffer of {} bytes succeeded although {plen} are needed (C14's business)", plen - 1))),
            }
        }
        let got = hs_read(r, &msg, plen + 16).map_err(|e| Fail::new(format!("{name}: honest read of message {idx} failed (psk supply mode {late_mode}: 0 build, 1 initiator by set_psk, 2 responder by set_psk, 3 both): {e:?}; {}", keyinfo())))?;
        ensure!(got == payload, "{name}: handshake payload {idx} not returned intact; {}", keyinfo());
    }
    ensure!(hi.is_handshake_finished() && hr.is_handshake_finished(), "{name}: handshake not finished on both sides after {nm} messages; {}", keyinfo());
    ensure!(hi.get_handshake_hash() == hr.get_handshake_hash(), "{name}: handshake hashes differ; {}", keyinfo());
    let oneway = pat.is_oneway();
    let mut ti = if c.stateless_i {
        T::Sl(hi.into_stateless_transport_mode().map_err(|e| Fail::new(format!("{name}: conversion failed after completed handshake: {e:?}")))?)
    } else {
        T::Sf(hi.into_transport_mode().map_err(|e| Fail::new(format!("{name}: conversion failed after completed handshake: {e:?}")))?)
    };
    let mut tr = if c.stateless_r {
        T::Sl(hr.into_stateless_transport_mode().map_err(|e| Fail::new(format!("{name}: conversion failed after completed handshake: {e:?}")))?)
    } else {
        T::Sf(hr.into_transport_mode().map_err(|e| Fail::new(format!("{name}: conversion failed after completed handshake: {e:?}")))?)
    };
    // phase 1: all writes; phase 2: deliveries
    struct Sent {
        i_sends: bool,
        nonce: u64,
        payload: Vec<u8>,
        msg: Vec<u8>,
    }
    let mut sent: Vec<Sent> = Vec::new();
    let mut cnt = [0u64; 2];
    for (k, (i_sends, cls)) in c.transport.iter().enumerate() {
        let i_sends = *i_sends || oneway;
        let plen = len_class(*cls, 65535 - 16, c.fill.wrapping_add(k as u64 * 977));
        let payload = expand(c.seed, 5000 + k as u64, plen);
        let both_stateless = c.stateless_i && c.stateless_r;
        let d = if i_sends { 0 } else { 1 };
        let nonce = if both_stateless && c.wild_nonces {
            // distinct arbitrary nonces below 2^64-1
            (mix(c.seed, 77 + k as u64) | 1).wrapping_mul(2).wrapping_add(k as u64 % 2) % (u64::MAX - 1)
        } else {
            cnt[d]
        };
        cnt[d] += 1;
        let w = if i_sends { &mut ti } else { &mut tr };
        let msg = match w {
            T::Sf(t) => t_write(t, &payload, plen + 16),
            T::Sl(t) => sl_write(t, nonce, &payload, plen + 16),
        }
        .map_err(|e| Fail::new(format!("{name}: transport write {k} ({plen} bytes, nonce {nonce}) failed: {e:?}")))?;
        ensure!(msg.len() == plen + 16, "{name}: transport message {k} has length {} for a {plen}-byte payload", msg.len());
        sent.push(Sent { i_sends, nonce, payload, msg });
    }
    // delivery order: per direction in order towards a stateful receiver
    let mut order: Vec<usize> = (0..sent.len()).collect();
    let reorder_ok = |s: &Sent| if s.i_sends { c.stateless_r } else { c.stateless_i };
    match c.delivery % 3 {
        1 => {
            // reverse the positions of the messages whose receiver is stateless
            let idxs: Vec<usize> = order.iter().copied().filter(|i| reorder_ok(&sent[*i])).collect();
            let mut rev = idxs.clone();
            rev.reverse();
            for (a, b) in idxs.iter().zip(rev.iter()) {
                order[*a] = *b;
            }
        },
        2 => {
            let idxs: Vec<usize> = order.iter().copied().filter(|i| reorder_ok(&sent[*i])).collect();
            let mut perm = idxs.clone();
            for k in (1..perm.len()).rev() {
                let j = (mix(c.seed, 900 + k as u64) % (k as u64 + 1)) as usize;
                perm.swap(k, j);
            }
            for (a, b) in idxs.iter().zip(perm.iter()) {
                order[*a] = *b;
            }
        },
        _ => {},
    }
    let mut delivered = 0;
    for &k in &order {
        let s = &sent[k];
        let r = if s.i_sends { &mut tr } else { &mut ti };
        let got = match r {
            T::Sf(t) => t_read(t, &s.msg, s.payload.len()),
            T::Sl(t) => sl_read(t, s.nonce, &s.msg, s.payload.len()),
        }
        .map_err(|e| Fail::new(format!("{name}: honest transport message {k} (nonce {}, {}) rejected: {e:?}; {}", s.nonce, if s.i_sends { "i->r" } else { "r->i" }, keyinfo())))?;
        ensure!(got == s.payload, "{name}: transport payload {k} not returned intact");
        delivered += 1;
    }
    acc.label(format!("pattern:{}", c.pattern));
    acc.label(format!("suite:{}", suite_string(c.suite)));
    acc.label(format!("psks:{}", c.psks.len()));
    acc.label(format!("mode:{}{}", if c.stateless_i { "SL" } else { "SF" }, if c.stateless_r { "SL" } else { "SF" }));
    acc.label(format!("delivery:{}", c.delivery % 3));
    if c.hfs {
        acc.label("hfs");
    }
    if let Some(l) = &lay {
        if plens.iter().enumerate().any(|(i, p)| *p == 65535 - l[i].overhead) {
            acc.label("payload:max");
        }
    }
    if sent.iter().any(|s| s.msg.len() == 65535) {
        acc.label("transport:65535");
    }
    if sent.iter().any(|s| !s.i_sends) {
        acc.label("transport:r->i");
    }
    if delivered > 0 {
        acc.nontrivial(&(name, plens, c.transport.clone(), c.stateless_i, c.stateless_r, c.delivery % 3));
    }
    Ok(())
}

fn mk_case(hs: &HsName, suite: rn::Suite, i: usize, seed: u64) -> Case {
    let ring = ring_covers(suite);
    Case {
        hs: hs.string(),
        pattern: hs.pattern.clone(),
        psks: hs.psks.clone(),
        suite,
        hfs: false,
        backend_i: if ring { BACKENDS[i % 3] } else { Backend::Default },
        backend_r: if ring { BACKENDS[(i / 3) % 3] } else { Backend::Default },
        payload_classes: vec![(i % 17) as u8, ((i / 5) % 17) as u8, ((i / 7) % 17) as u8],
        fill: mix(seed, i as u64),
        transport: vec![(true, 2), (false, 16), (true, 0), (false, 1), (true, 16), (true, 9)],
        stateless_i: i % 4 >= 2,
        stateless_r: i % 2 == 1,
        delivery: (i % 3) as u8,
        wild_nonces: i % 5 == 0,
        prologue_len: [0, 5, 200][i % 3],
        seed: mix(seed, 31 + i as u64),
        shaped: None,
    }
}

fn case_strategy(names: Arc<Vec<HsName>>, suites: Arc<Vec<rn::Suite>>) -> impl Strategy<Value = Case> {
    (
        (any::<u16>(), any::<u16>(), any::<u64>(), 0u8..3, 0u8..3),
        (prop::collection::vec(0u8..20, 1..4), any::<u64>(), prop::collection::vec((any::<bool>(), 0u8..20), 0..30)),
        (any::<bool>(), any::<bool>(), 0u8..3, any::<bool>(), any::<u16>()),
    )
        .prop_map(move |((ni, si, seed, bi, br), (payload_classes, fill, transport), (sli, slr, delivery, wild, pl))| {
            let hs = &names[pick(ni, names.len())];
            let suite = suites[pick(si, suites.len())];
            let ring = ring_covers(suite);
            Case {
                hs: hs.string(),
                pattern: hs.pattern.clone(),
                psks: hs.psks.clone(),
                suite,
                hfs: false,
                backend_i: if ring { BACKENDS[bi as usize] } else { Backend::Default },
                backend_r: if ring { BACKENDS[br as usize] } else { Backend::Default },
                payload_classes,
                fill,
                transport,
                stateless_i: sli,
                stateless_r: slr,
                delivery,
                wild_nonces: wild,
                prologue_len: [0usize, 1, 32, 64, 129, 1000][pick(pl, 6)],
                seed,
                shaped: None,
            }
        })
}

#[cfg(feature = "hfs")]
fn hfs_cases(seed: u64) -> Vec<Case> {
    use crate::refcrypto::{CipherKind, DhKind, HashKind};
    let mut out = Vec::new();
    let mut i = 0usize;
    for p in rn::all_patterns() {
        if p.is_oneway() {
            continue;
        }
        for (mods, psks) in [("hfs", vec![]), ("psk0+hfs", vec![0u8]), ("hfs+psk2", vec![2u8])] {
            for cipher in [CipherKind::ChaChaPoly, CipherKind::AesGcm] {
                let suite = rn::Suite { dh: DhKind::X25519, cipher, hash: [HashKind::Sha256, HashKind::Blake2b][i % 2] };
                let base = HsName { pattern: p.name.clone(), psks: psks.clone() };
                let mut c = mk_case(&base, suite, i, seed);
                c.hs = format!("{}{}", p.name, mods);
                c.hfs = true;
                c.backend_i = Backend::Default;
                c.backend_r = Backend::Default;
                out.push(c);
                i += 1;
            }
        }
    }
    out
}

pub fn run(ctx: &Ctx) {
    let names = Arc::new(all_hs_names());
    let suites = Arc::new(all_suites());
    let seed = ctx.seed;
    {
        let (names, suites) = (names.clone(), suites.clone());
        let thorough = ctx.tier == Tier::Thorough;
        let count = if thorough { names.len() * suites.len() * 2 } else { names.len() * 8 };
        ctx.run_indexed(
            "name_enumeration",
            count,
            false,
            move |i| {
                if thorough {
                    mk_case(&names[i % names.len()], suites[(i / names.len()) % suites.len()], i, seed)
                } else {
                    mk_case(&names[i % names.len()], suites[(i + 11 * (i / names.len())) % suites.len()], i, seed)
                }
            },
            oracle,
        );
    }
    ctx.run_prop("random_sessions", ctx.tier.pick(20_000, 100_000), || case_strategy(names.clone(), suites.clone()), oracle);
    // DH outputs of rare shapes (leading / trailing zero bytes) for every pattern
    {
        let mut shaped = Vec::new();
        let mut k = 0u64;
        for (hi, hs) in some_hs_names(ctx.tier.pick(1, 3)).into_iter().enumerate() {
            for dh in crate::refcrypto::DHS {
                for pair in 0..8u64 {
                    k += 1;
                    if ctx.tier.pick((pair as usize + hi) % 2 == 1, false) {
                        continue;
                    }
                    let suite = *suites.iter().filter(|s| s.dh == dh).nth((k % 12) as usize).unwrap();
                    let mut c = mk_case(&hs, suite, k as usize, seed);
                    c.backend_i = Backend::Default;
                    c.backend_r = Backend::Default;
                    c.transport.truncate(3);
                    c.shaped = Some(pair);
                    shaped.push(c);
                }
            }
        }
        ctx.run_list("shaped_dh_outputs", &shaped, false, oracle);
    }
    // long sessions: tens of thousands of small messages in one direction, few in the other
    {
        let mut long = Vec::new();
        for (k, n) in ctx.tier.pick(vec![300usize, 700, 66000], vec![300usize, 700, 66000, 66000, 200000]).into_iter().enumerate() {
            for (j, pat) in ["NN", "XX", "N", "IK"].iter().enumerate() {
                let hs = HsName { pattern: pat.to_string(), psks: vec![] };
                let suite = suites[(k * 7 + j * 5) % suites.len()];
                let mut c = mk_case(&hs, suite, k * 4 + j, seed);
                // mostly i->r; every 97th message the other way; tiny payloads
                c.transport = (0..n).map(|m| (m % 97 != 96, (m % 3) as u8)).collect();
                c.stateless_i = false;
                c.stateless_r = j % 2 == 1;
                c.delivery = 0;
                c.wild_nonces = false;
                long.push(c);
            }
        }
        ctx.run_list("long_sessions", &long, false, oracle);
    }
    #[cfg(feature = "hfs")]
    {
        let cases = hfs_cases(seed);
        ctx.run_list("hfs_sessions", &cases, false, oracle);
    }
    #[cfg(not(feature = "hfs"))]
    ctx.note("hfs/Kyber names are exercised by the hfs build of the harness: ./check starts it as a second process for the sub-check hfs_sessions (quick) or runs it alone (thorough)");
}

pub fn replay(ctx: &Ctx, sub: &str, case: &serde_json::Value, origin: &str) -> bool {
    ctx.replay_case::<Case, _>(sub, case, oracle, origin)
}
