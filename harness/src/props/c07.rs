//! C07 Failed calls are no-ops: differential fault enumeration (run with injected failing
//! calls vs. the same run without them).

use super::c10::boundaries;
use super::common::*;
use super::PropDef;
use crate::engine::{expand, mix, pick, Acc, CaseResult, Ctx, Fail, Tier};
use crate::instr::SharedRng;
use crate::refcrypto::DhKind;
use crate::refnoise::Tok;
use crate::sess::*;
use proptest::prelude::*;
use serde::{Deserialize, Serialize};
use snow::HandshakeState;

pub const DEF: PropDef = PropDef {
    id: "C07",
    run,
    replay,
    level: "fault_enumeration",
    rule: "fault enumeration: (handshake string, suite, message index or transport phase, side, failure cause, repetitions 1..3 / scattered faults); causes on write: output buffer at every field boundary -1/0/+1 below the predicted length, payload too large, PSK for this message not yet supplied (then set_psk), out-of-turn; on read: a flipped bit in every field, truncation at every field boundary, extension, foreign message of a parallel session, payload buffer too small/empty, missing PSK, out-of-turn, message > 65535, a correctly encrypted but invalid static key from a peer holding the right keys (P-256: fails at the DH token after the s field was accepted); transport: undersized buffers, oversize payload/message, garbage, truncated, flipped, wrong direction on one-way, a read / write attempted while the counter stands at 2^64-1 (moved there and back by the caller). Oracle: state snapshot (turn, finished, handshake hash, remote static, payload-encrypted flag, nonces) unchanged by the failed call, the retried step succeeds, every later handshake message, the final hash and the first transport messages in both directions are byte-identical to the fault-free run and accepted by the peer. Non-trivial = the injected call really returned Err; distinct by (name, suite, index, cause, repetitions)",
    technique: "differential fault injection (faulty run vs fault-free run under a scripted RNG), enumerated from reference-model field maps + proptest for scattered multi-fault schedules",
    assumptions: &["ephemeral keys are a function of the message index (scripted RNG / fixed ephemerals), so the fault-free run is the specification of the faulty one; while an injected failing call runs, the scripted RNG yields different bytes, so randomness drawn AND KEPT by a failing call is visible in the transcript"],
    panic_is_violation: false,
    needs_refnoise: false,
};

#[derive(Clone, Debug, Serialize, Deserialize, PartialEq, Eq, Hash)]
pub enum Cause {
    WBuf(usize),
    WBig,
    WPsk(u8),
    WTurn,
    RFlip(usize, u8),
    RTrunc(usize),
    RExtend(usize),
    RForeign,
    RPbuf(usize),
    RPsk(u8),
    RTurn,
    /// the writer reads its own message back
    RReflect,
    /// a set_psk call that fails (wrong key length / slot out of range) before the valid write
    BadSetPsk(u8),
    /// after the last handshake message, before conversion: a further write (must fail, no trace)
    AfterFinishWrite,
    /// after the last handshake message, before conversion: a further read (must fail, no trace)
    AfterFinishRead,
    RBig,
    /// a message from a peer that holds all the right keys but whose (correctly encrypted)
    /// static public key is not a valid DH point: the read fails at a DH token AFTER the `s`
    /// field was decrypted and accepted (P-256 only: X25519 accepts every 32-byte string)
    #[serde(alias = "RBadKey")]
    RBadStatic(u8),
    // transport phase (idx == number of handshake messages); bool = initiator is the actor
    TWBuf(bool, usize),
    TWBig(bool),
    TRGarbage(bool, usize),
    TRTrunc(bool, usize),
    TRFlip(bool, usize),
    TRPbuf(bool, usize),
    TRBig(bool),
    TOneWayRead,
    TOneWayWrite,
    /// a write attempted while the sending counter stands at the reserved value 2^64-1 (placed
    /// there with the hook and moved back afterwards): fails with the exhaustion error and must
    /// leave no other trace
    TExhaustWrite(bool),
    /// a read attempted while the receiving counter stands at 2^64-1 (set_receiving_nonce there
    /// and back)
    TExhaustRead(bool),
}

#[derive(Clone, Debug, Serialize, Deserialize, PartialEq, Eq, Hash)]
pub struct Fault {
    pub idx: usize,
    pub cause: Cause,
    pub reps: u8,
}

#[derive(Clone, Debug, Serialize, Deserialize)]
pub struct Case {
    pub spec: SessionSpec,
    pub faults: Vec<Fault>,
    pub plen: usize,
    /// both parties are also given a (different) remote static key the pattern does not need;
    /// get_remote_static() then has a visible value that a failed read must not change
    #[serde(default)]
    pub extra_rs: bool,
}

#[derive(Clone, PartialEq)]
struct Snap {
    my_turn: bool,
    finished: bool,
    h: Vec<u8>,
    rs: Option<Vec<u8>>,
    enc: bool,
}

impl std::fmt::Debug for Snap {
    fn fmt(&self, f: &mut std::fmt::Formatter<'_>) -> std::fmt::Result {
        write!(
            f,
            "{{my_turn:{} finished:{} handshake_hash:{} remote_static:{} payload_encrypted:{}}}",
            self.my_turn,
            self.finished,
            hexs(&self.h),
            self.rs.as_ref().map_or("None".to_string(), |r| hexs(r)),
            self.enc
        )
    }
}

fn snap(h: &HandshakeState) -> Snap {
    Snap {
        my_turn: h.is_my_turn(),
        finished: h.is_handshake_finished(),
        h: h.get_handshake_hash().to_vec(),
        rs: h.get_remote_static().map(|x| x.to_vec()),
        enc: h.was_write_payload_encrypted(),
    }
}

#[derive(Default, Debug, PartialEq)]
struct Transcript {
    msgs: Vec<Vec<u8>>,
    hashes: Vec<Vec<u8>>,
    transport: Vec<Vec<u8>>,
}

struct Outcome {
    t: Transcript,
    /// number of injected calls that really failed
    failed_calls: usize,
    /// injected calls that succeeded (not a failure: the case is then not judged)
    not_a_failure: bool,
}

thread_local! {
    static EXTRA_RS: std::cell::Cell<bool> = const { std::cell::Cell::new(false) };
}

fn build_side(spec: &SessionSpec, initiator: bool, omit: &[u8]) -> Result<HandshakeState, Fail> {
    build_side_rng(spec, initiator, omit).map(|x| x.0)
}

fn build_side_rng(spec: &SessionSpec, initiator: bool, omit: &[u8]) -> Result<(HandshakeState, SharedRng), Fail> {
    let rng = SharedRng::seeded(spec.key_seed ^ 0x33, spec.suite.dh == DhKind::P256);
    rng.script(&spec.e_priv(initiator));
    let mut ov = EpOverrides { omit_psks: omit.to_vec(), ..Default::default() };
    if EXTRA_RS.with(|x| x.get()) && !spec.pattern().role_needs_remote_static(initiator) {
        ov.supply_rs = Some(true);
        ov.rs_value = Some(crate::refcrypto::dh_pub(spec.suite.dh, &priv_from_seed(spec.suite.dh, spec.key_seed, 4321)).unwrap());
    }
    let h = build_snow(spec, initiator, &ov, &Instr { rng: Some(rng.clone()), log: None }).map_err(|x| Fail::setup(format!("build {}: {}", spec.name_string(), e(&x))))?;
    Ok((h, rng))
}

/// psk indices whose token sits in message `idx`
fn psks_in_msg(spec: &SessionSpec, idx: usize) -> Vec<u8> {
    let m = spec.pattern().with_psks(&spec.hs.psks).unwrap();
    m[idx].iter().filter_map(|t| if let Tok::Psk(n) = t { Some(*n) } else { None }).collect()
}


/// The message `idx` of the honest session as the reference model writes it, except that the
/// writer's static public key is replaced by an invalid P-256 point (kind 0: y coordinate with
/// one bit flipped, kind 1: all-zero coordinates). None if message `idx` carries no static key.
fn bad_static_message(spec: &SessionSpec, idx: usize, plen: usize, kind: u8) -> Result<Option<Vec<u8>>, Fail> {
    if spec.suite.dh != DhKind::P256 {
        return Ok(None);
    }
    let toks = spec.pattern().with_psks(&spec.hs.psks).ok_or_else(|| Fail::setup("psk set"))?;
    if !toks[idx].contains(&Tok::S) {
        return Ok(None);
    }
    let mut mi = build_ref(spec, true, &EpOverrides::default()).map_err(|x| Fail::setup(format!("model build: {x:?}")))?;
    let mut mr = build_ref(spec, false, &EpOverrides::default()).map_err(|x| Fail::setup(format!("model build: {x:?}")))?;
    for k in 0..idx {
        let i_sends = k % 2 == 0;
        let (w, r) = if i_sends { (&mut mi, &mut mr) } else { (&mut mr, &mut mi) };
        let o = w.write(Some(spec.e_priv(i_sends)), &spec.payload(k, plen)).map_err(|x| Fail::setup(format!("model write: {x:?}")))?;
        r.read(&o.msg).map_err(|x| Fail::setup(format!("model read: {x:?}")))?;
    }
    let i_sends = idx % 2 == 0;
    let w = if i_sends { &mut mi } else { &mut mr };
    let Some(kp) = w.s.as_mut() else { return Ok(None) };
    if kind % 2 == 0 {
        kp.pubkey[64] ^= 1;
    } else {
        for b in kp.pubkey[1..].iter_mut() {
            *b = 0;
        }
    }
    match w.write(Some(spec.e_priv(i_sends)), &spec.payload(idx, plen)) {
        Ok(o) => Ok(Some(o.msg)),
        Err(x) => Err(Fail::setup(format!("model write with an invalid static key: {x:?}"))),
    }
}

/// Run the session; `faults` are injected before the valid call of their message index.
fn run_session(spec: &SessionSpec, faults: &[Fault], plen: usize) -> Result<Outcome, Fail> {
    let name = spec.name_string();
    let nm = spec.n_msgs();
    let mut omit_i = vec![];
    let mut omit_r = vec![];
    for f in faults {
        match &f.cause {
            Cause::WPsk(n) => {
                if f.idx % 2 == 0 {
                    omit_i.push(*n)
                } else {
                    omit_r.push(*n)
                }
            },
            Cause::RPsk(n) => {
                if f.idx % 2 == 0 {
                    omit_r.push(*n)
                } else {
                    omit_i.push(*n)
                }
            },
            _ => {},
        }
    }
    let (mut hi, rng_i) = build_side_rng(spec, true, &omit_i)?;
    let (mut hr, rng_r) = build_side_rng(spec, false, &omit_r)?;
    // While an injected (failing) call runs, the random source of both sides yields OTHER bytes
    // than during the valid calls: a failing call that draws an ephemeral and keeps it shows up
    // as a different transcript (correct code draws again in the valid write, or draws nothing)
    let poison = priv_from_seed(spec.suite.dh, spec.key_seed, 7777);
    let inject = |on: bool| {
        if on {
            rng_i.script(&poison);
            rng_r.script(&poison);
        } else {
            rng_i.script(&spec.e_priv(true));
            rng_r.script(&spec.e_priv(false));
        }
    };
    let lay = spec.layouts();
    let mut out = Outcome { t: Transcript::default(), failed_calls: 0, not_a_failure: false };
    // a parallel session with other keys, for foreign messages
    let foreign = |idx: usize| -> Result<Vec<u8>, Fail> {
        let mut other = spec.clone();
        other.key_seed = mix(spec.key_seed, 0xF0F0);
        let mut pair = super::c10::drive_to(&other, idx)?;
        let w = if idx % 2 == 0 { &mut pair.i } else { &mut pair.r };
        hs_write(w, &other.payload(idx, plen), 65535 + 16).map_err(|x| Fail::setup(format!("foreign write: {}", e(&x))))
    };
    for idx in 0..nm {
        let payload = spec.payload(idx, plen);
        let i_sends = idx % 2 == 0;
        let predicted = lay[idx].overhead + plen;
        // --- write-side faults
        inject(true);
        for f in faults.iter().filter(|f| f.idx == idx) {
            let (w, r) = if i_sends { (&mut hi, &mut hr) } else { (&mut hr, &mut hi) };
            for rep in 0..f.reps.max(1) {
                let (actor_is_writer, res): (bool, Result<usize, snow::Error>) = match &f.cause {
                    Cause::WBuf(b) => {
                        let mut buf = vec![0u8; *b];
                        (true, w.write_message(&payload, &mut buf))
                    },
                    Cause::WBig => {
                        let big = expand(spec.key_seed, 55 + rep as u64, 65535 - lay[idx].overhead + 1 + rep as usize);
                        let mut buf = vec![0u8; 70000];
                        (true, w.write_message(&big, &mut buf))
                    },
                    Cause::WPsk(_) => {
                        let mut buf = vec![0u8; 65535];
                        (true, w.write_message(&payload, &mut buf))
                    },
                    Cause::WTurn => {
                        let mut buf = vec![0u8; 65535];
                        (false, r.write_message(&payload, &mut buf))
                    },
                    Cause::BadSetPsk(kind) => {
                        let r0 = match kind % 3 {
                            0 => w.set_psk(0, &[1u8; 31]),
                            1 => w.set_psk(10, &[1u8; 32]),
                            _ => w.set_psk(200, &[]),
                        };
                        (true, r0.map(|_| 0usize))
                    },
                    Cause::RTurn => {
                        // the party whose turn it is to write tries to read instead
                        let m = expand(spec.key_seed, 88 + rep as u64, 200);
                        let mut buf = vec![0u8; 65535];
                        (true, w.read_message(&m, &mut buf))
                    },
                    _ => continue,
                };
                let _ = actor_is_writer;
                if res.is_ok() {
                    out.not_a_failure = true;
                    return Ok(out);
                }
                out.failed_calls += 1;
            }
            if let Cause::WPsk(n) = &f.cause {
                w.set_psk(*n as usize, &spec.psk(*n)).map_err(|x| Fail::new(format!("{name}: set_psk: {}", e(&x))))?;
            }
        }
        inject(false);
        // snapshots around write-side faults are taken in `oracle` via a second pass; here we
        // perform the valid write
        let (w, r) = if i_sends { (&mut hi, &mut hr) } else { (&mut hr, &mut hi) };
        let msg = hs_write(w, &payload, predicted + 16).map_err(|x| {
            Fail::new(format!("{name}: message {idx}: the valid write after the injected failure(s) {:?} failed: {}", faults, e(&x)))
        })?;
        // --- read-side faults
        inject(true);
        for f in faults.iter().filter(|f| f.idx == idx) {
            for rep in 0..f.reps.max(1) {
                let res: Result<usize, snow::Error> = match &f.cause {
                    Cause::RFlip(pos, bit) => {
                        let mut m = msg.clone();
                        let p = (*pos + rep as usize) % m.len();
                        m[p] ^= 1 << (bit % 8);
                        let mut buf = vec![0u8; 65535];
                        r.read_message(&m, &mut buf)
                    },
                    Cause::RTrunc(l) => {
                        let l = (*l).min(msg.len().saturating_sub(1));
                        let mut buf = vec![0u8; 65535];
                        r.read_message(&msg[..l], &mut buf)
                    },
                    Cause::RExtend(n) => {
                        let mut m = msg.clone();
                        m.extend(std::iter::repeat(0x5a).take(*n));
                        let mut buf = vec![0u8; 65535];
                        r.read_message(&m, &mut buf)
                    },
                    Cause::RForeign => {
                        let m = foreign(idx)?;
                        let mut buf = vec![0u8; 65535];
                        r.read_message(&m, &mut buf)
                    },
                    Cause::RPbuf(b) => {
                        let mut buf = vec![0u8; *b];
                        r.read_message(&msg, &mut buf)
                    },
                    Cause::RPsk(_) => {
                        let mut buf = vec![0u8; 65535];
                        r.read_message(&msg, &mut buf)
                    },
                    Cause::RReflect => {
                        let mut buf = vec![0u8; 65535];
                        w.read_message(&msg, &mut buf)
                    },
                    Cause::RBig => {
                        let m = expand(spec.key_seed, 66, 65536 + rep as usize);
                        let mut buf = vec![0u8; 70000];
                        r.read_message(&m, &mut buf)
                    },
                    Cause::RBadStatic(kind) => {
                        let Some(m) = bad_static_message(spec, idx, plen, *kind)? else {
                            out.not_a_failure = true;
                            return Ok(out);
                        };
                        let mut buf = vec![0u8; 65535];
                        r.read_message(&m, &mut buf)
                    },
                    _ => continue,
                };
                if res.is_ok() {
                    out.not_a_failure = true;
                    return Ok(out);
                }
                out.failed_calls += 1;
            }
            if let Cause::RPsk(n) = &f.cause {
                r.set_psk(*n as usize, &spec.psk(*n)).map_err(|x| Fail::new(format!("{name}: set_psk: {}", e(&x))))?;
            }
        }
        inject(false);
        let got = hs_read(r, &msg, plen + 16).map_err(|x| {
            Fail::new(format!("{name}: message {idx}: the genuine message is rejected after the injected failure(s) {:?}: {}", faults, e(&x)))
        })?;
        if got != payload {
            return Err(Fail::new(format!("{name}: message {idx}: payload differs after the injected failure(s) {faults:?}")));
        }
        out.t.msgs.push(msg);
        out.t.hashes.push(hi.get_handshake_hash().to_vec());
        out.t.hashes.push(hr.get_handshake_hash().to_vec());
    }
    // faults on the finished handshake objects, before conversion
    for f in faults.iter().filter(|f| f.idx == nm) {
        for _ in 0..f.reps.max(1) {
            let res: Option<Result<usize, snow::Error>> = match &f.cause {
                Cause::AfterFinishWrite => {
                    let mut buf = vec![0u8; 200];
                    let a = hi.write_message(b"late", &mut buf);
                    let b = hr.write_message(b"late", &mut buf);
                    Some(a.and(b))
                },
                Cause::AfterFinishRead => {
                    let mut buf = vec![0u8; 200];
                    let m = out.t.msgs.last().cloned().unwrap_or_default();
                    let a = hi.read_message(&m, &mut buf);
                    let b = hr.read_message(&m, &mut buf);
                    Some(a.and(b))
                },
                _ => None,
            };
            if let Some(res) = res {
                if res.is_ok() {
                    out.not_a_failure = true;
                    return Ok(out);
                }
                out.failed_calls += 1;
            }
        }
    }
    out.t.hashes.push(hi.get_handshake_hash().to_vec());
    out.t.hashes.push(hr.get_handshake_hash().to_vec());
    // transport phase
    let oneway = spec.pattern().is_oneway();
    if spec.key_seed % 3 == 0 {
        // stateless ending: the first messages at a few nonces must be identical too
        let si = hi.into_stateless_transport_mode().map_err(|x| Fail::new(format!("{name}: conversion: {}", e(&x))))?;
        let sr = hr.into_stateless_transport_mode().map_err(|x| Fail::new(format!("{name}: conversion: {}", e(&x))))?;
        for n in [0u64, 5, 1 << 40] {
            for i_sends in [true, false] {
                if oneway && !i_sends {
                    continue;
                }
                let payload = spec.payload(300 + i_sends as usize, plen + 2);
                let (w, r) = if i_sends { (&si, &sr) } else { (&sr, &si) };
                let msg = sl_write(w, n, &payload, payload.len() + 16).map_err(|x| Fail::new(format!("{name}: stateless write after the injected failure(s) {:?} failed: {}", faults, e(&x))))?;
                let got = sl_read(r, n, &msg, payload.len()).map_err(|x| Fail::new(format!("{name}: genuine stateless message rejected after the injected failure(s) {:?}: {}", faults, e(&x))))?;
                if got != payload {
                    return Err(Fail::new(format!("{name}: stateless payload differs after {faults:?}")));
                }
                out.t.transport.push(msg);
            }
        }
        return Ok(out);
    }
    let mut ti = hi.into_transport_mode().map_err(|x| Fail::new(format!("{name}: conversion: {}", e(&x))))?;
    let mut tr = hr.into_transport_mode().map_err(|x| Fail::new(format!("{name}: conversion: {}", e(&x))))?;
    for round in 0..4 {
        if round == 2 {
            // a synchronised rekey of both directions: traces may only show in the new keys
            ti.rekey_outgoing();
            tr.rekey_incoming();
            tr.rekey_outgoing();
            ti.rekey_incoming();
        }
        for i_sends in [true, false] {
            if oneway && !i_sends {
                continue;
            }
            let payload = spec.payload(200 + round * 2 + i_sends as usize, plen + round);
            // faults of the transport phase are injected before the first round
            if round == 0 {
                for f in faults.iter().filter(|f| f.idx == nm) {
                    for rep in 0..f.reps.max(1) {
                        let before = (ti.sending_nonce(), ti.receiving_nonce(), tr.sending_nonce(), tr.receiving_nonce());
                        let res: Option<Result<usize, snow::Error>> = match &f.cause {
                            Cause::TWBuf(actor_i, b) if *actor_i == i_sends => {
                                let t = if *actor_i { &mut ti } else { &mut tr };
                                let mut buf = vec![0u8; *b];
                                Some(t.write_message(&payload, &mut buf))
                            },
                            Cause::TWBig(actor_i) if *actor_i == i_sends => {
                                let t = if *actor_i { &mut ti } else { &mut tr };
                                let big = vec![7u8; 65535 - 16 + 1 + rep as usize];
                                let mut buf = vec![0u8; 70000];
                                Some(t.write_message(&big, &mut buf))
                            },
                            Cause::TRGarbage(actor_i, l) if *actor_i != i_sends => {
                                let t = if *actor_i { &mut ti } else { &mut tr };
                                let m = expand(spec.key_seed, 77 + rep as u64, *l);
                                let mut buf = vec![0u8; 70000];
                                Some(t.read_message(&m, &mut buf))
                            },
                            Cause::TRBig(actor_i) if *actor_i != i_sends => {
                                let t = if *actor_i { &mut ti } else { &mut tr };
                                let m = vec![1u8; 65536];
                                let mut buf = vec![0u8; 70000];
                                Some(t.read_message(&m, &mut buf))
                            },
                            Cause::TExhaustWrite(actor_i) if *actor_i == i_sends => {
                                let t = if *actor_i { &mut ti } else { &mut tr };
                                let orig = t.sending_nonce();
                                t.verif_set_sending_nonce(u64::MAX);
                                let mut buf = vec![0u8; payload.len() + 16];
                                let r = t.write_message(&payload, &mut buf);
                                t.verif_set_sending_nonce(orig);
                                Some(r)
                            },
                            Cause::TExhaustRead(actor_i) if *actor_i != i_sends => {
                                let t = if *actor_i { &mut ti } else { &mut tr };
                                let orig = t.receiving_nonce();
                                t.set_receiving_nonce(u64::MAX);
                                let m = expand(spec.key_seed, 78 + rep as u64, 40);
                                let mut buf = vec![0u8; 100];
                                let r = t.read_message(&m, &mut buf);
                                t.set_receiving_nonce(orig);
                                Some(r)
                            },
                            Cause::TOneWayRead if oneway && i_sends => {
                                let mut buf = vec![0u8; 100];
                                Some(ti.read_message(&[0u8; 40], &mut buf))
                            },
                            Cause::TOneWayWrite if oneway && i_sends => {
                                let mut buf = vec![0u8; 100];
                                Some(tr.write_message(b"x", &mut buf))
                            },
                            _ => None,
                        };
                        if let Some(res) = res {
                            if res.is_ok() {
                                out.not_a_failure = true;
                                return Ok(out);
                            }
                            out.failed_calls += 1;
                            let after = (ti.sending_nonce(), ti.receiving_nonce(), tr.sending_nonce(), tr.receiving_nonce());
                            if before != after {
                                return Err(Fail::new(format!("{name}: failed transport call {:?} changed the nonces {before:?} -> {after:?}", f.cause)));
                            }
                        }
                    }
                }
            }
            let (w, r) = if i_sends { (&mut ti, &mut tr) } else { (&mut tr, &mut ti) };
            let msg = t_write(w, &payload, payload.len() + 16)
                .map_err(|x| Fail::new(format!("{name}: transport write (round {round}) after the injected failure(s) {:?} failed: {}", faults, e(&x))))?;
            if round == 0 {
                for f in faults.iter().filter(|f| f.idx == nm) {
                    for rep in 0..f.reps.max(1) {
                        let before = (r.sending_nonce(), r.receiving_nonce());
                        let res: Option<Result<usize, snow::Error>> = match &f.cause {
                            Cause::TRTrunc(actor_i, l) if *actor_i != i_sends => {
                                let l = (*l).min(msg.len() - 1);
                                let mut buf = vec![0u8; 70000];
                                Some(r.read_message(&msg[..l], &mut buf))
                            },
                            Cause::TRFlip(actor_i, p) if *actor_i != i_sends => {
                                let mut m = msg.clone();
                                let p = (*p + rep as usize) % m.len();
                                m[p] ^= 0x10;
                                let mut buf = vec![0u8; 70000];
                                Some(r.read_message(&m, &mut buf))
                            },
                            Cause::TRPbuf(actor_i, b) if *actor_i != i_sends => {
                                let mut buf = vec![0u8; *b];
                                Some(r.read_message(&msg, &mut buf))
                            },
                            _ => None,
                        };
                        if let Some(res) = res {
                            if res.is_ok() {
                                out.not_a_failure = true;
                                return Ok(out);
                            }
                            out.failed_calls += 1;
                            let after = (r.sending_nonce(), r.receiving_nonce());
                            if before != after {
                                return Err(Fail::new(format!("{name}: failed transport read {:?} changed the nonces {before:?} -> {after:?}", f.cause)));
                            }
                        }
                    }
                }
            }
            let got = t_read(r, &msg, payload.len())
                .map_err(|x| Fail::new(format!("{name}: genuine transport message (round {round}) rejected after the injected failure(s) {:?}: {}", faults, e(&x))))?;
            if got != payload {
                return Err(Fail::new(format!("{name}: transport payload differs after {faults:?}")));
            }
            out.t.transport.push(msg);
        }
    }
    Ok(out)
}

/// Snapshot invariance of a single failing handshake call, checked directly.
fn snapshot_check(spec: &SessionSpec, f: &Fault, plen: usize) -> Result<bool, Fail> {
    let nm = spec.n_msgs();
    if f.idx >= nm {
        return Ok(true);
    }
    let name = spec.name_string();
    let idx = f.idx;
    let i_sends = idx % 2 == 0;
    let (omit_w, omit_r): (Vec<u8>, Vec<u8>) = match &f.cause {
        Cause::WPsk(n) => (vec![*n], vec![]),
        Cause::RPsk(n) => (vec![], vec![*n]),
        _ => (vec![], vec![]),
    };
    let (omit_i, omit_rr) = if i_sends { (omit_w, omit_r) } else { (omit_r, omit_w) };
    let mut hi = build_side(spec, true, &omit_i)?;
    let mut hr = build_side(spec, false, &omit_rr)?;
    for k in 0..idx {
        let (w, r) = if k % 2 == 0 { (&mut hi, &mut hr) } else { (&mut hr, &mut hi) };
        let m = hs_write(w, &spec.payload(k, plen), 65535 + 16).map_err(|x| Fail::setup(format!("{name}: prefix write {k}: {}", e(&x))))?;
        hs_read(r, &m, 65535).map_err(|x| Fail::setup(format!("{name}: prefix read {k}: {}", e(&x))))?;
    }
    let lay = spec.layouts();
    let payload = spec.payload(idx, plen);
    let (w, r) = if i_sends { (&mut hi, &mut hr) } else { (&mut hr, &mut hi) };
    let check = |who: &str, before: &Snap, h: &HandshakeState, res: &Result<usize, snow::Error>| -> Result<bool, Fail> {
        if res.is_ok() {
            return Ok(false);
        }
        let after = snap(h);
        if *before != after {
            return Err(Fail::new(format!(
                "{name}: message {idx}: {who} call failed with {res:?} for cause {:?} but changed the session: before {before:?} after {after:?}",
                f.cause
            )));
        }
        Ok(true)
    };
    match &f.cause {
        Cause::WBuf(b) => {
            let before = snap(w);
            let mut buf = vec![0u8; *b];
            let res = w.write_message(&payload, &mut buf);
            check("write", &before, w, &res)
        },
        Cause::WBig => {
            let before = snap(w);
            let big = vec![3u8; 65535 - lay[idx].overhead + 1];
            let mut buf = vec![0u8; 70000];
            let res = w.write_message(&big, &mut buf);
            check("write", &before, w, &res)
        },
        Cause::WPsk(_) => {
            let before = snap(w);
            let mut buf = vec![0u8; 65535];
            let res = w.write_message(&payload, &mut buf);
            check("write", &before, w, &res)
        },
        Cause::WTurn => {
            let before = snap(r);
            let mut buf = vec![0u8; 65535];
            let res = r.write_message(&payload, &mut buf);
            check("out-of-turn write", &before, r, &res)
        },
        Cause::BadSetPsk(kind) => {
            let before = snap(w);
            let r0 = match kind % 3 {
                0 => w.set_psk(0, &[1u8; 31]),
                1 => w.set_psk(10, &[1u8; 32]),
                _ => w.set_psk(200, &[]),
            };
            let res = r0.map(|_| 0usize);
            check("set_psk", &before, w, &res)
        },
        Cause::RTurn => {
            let before = snap(w);
            let m = expand(spec.key_seed, 88, 200);
            let mut buf = vec![0u8; 65535];
            let res = w.read_message(&m, &mut buf);
            check("out-of-turn read", &before, w, &res)
        },
        c => {
            let msg = hs_write(w, &payload, 65535 + 16).map_err(|x| Fail::setup(format!("{name}: write {idx}: {}", e(&x))))?;
            let mut buf = vec![0u8; 65535];
            let (actor, m): (&mut HandshakeState, Vec<u8>) = match c {
                Cause::RFlip(pos, bit) => {
                    let mut m = msg.clone();
                    let p = *pos % m.len();
                    m[p] ^= 1 << (bit % 8);
                    (r, m)
                },
                Cause::RTrunc(l) => (r, msg[..(*l).min(msg.len().saturating_sub(1))].to_vec()),
                Cause::RExtend(n) => {
                    let mut m = msg.clone();
                    m.extend(std::iter::repeat(0x5a).take(*n));
                    (r, m)
                },
                Cause::RPbuf(b) => {
                    buf = vec![0u8; *b];
                    (r, msg.clone())
                },
                Cause::RPsk(_) => (r, msg.clone()),
                Cause::RReflect => (w, msg.clone()),
                Cause::RBig => (r, vec![9u8; 65536]),
                Cause::RBadStatic(kind) => match bad_static_message(spec, idx, plen, *kind)? {
                    Some(m) => (r, m),
                    None => return Ok(false),
                },
                Cause::RForeign => {
                    let mut other = spec.clone();
                    other.key_seed = mix(spec.key_seed, 0xF0F0);
                    let mut pair = super::c10::drive_to(&other, idx)?;
                    let ow = if idx % 2 == 0 { &mut pair.i } else { &mut pair.r };
                    let m = hs_write(ow, &other.payload(idx, plen), 65535 + 16).map_err(|x| Fail::setup(format!("foreign write: {}", e(&x))))?;
                    (r, m)
                },
                _ => return Ok(true),
            };
            let before = snap(actor);
            let res = actor.read_message(&m, &mut buf);
            check("read", &before, actor, &res)
        },
    }
}

pub fn oracle(c: &Case, acc: &mut Acc) -> CaseResult {
    EXTRA_RS.with(|x| x.set(c.extra_rs));
    let r = oracle_inner(c, acc);
    EXTRA_RS.with(|x| x.set(false));
    r
}

fn oracle_inner(c: &Case, acc: &mut Acc) -> CaseResult {
    let spec = &c.spec;
    let name = spec.name_string();
    if c.extra_rs {
        acc.label("variant:unneeded_remote_static_supplied");
    }
    // (1) snapshot invariance of each injected failure in isolation
    for f in &c.faults {
        if !snapshot_check(spec, f, c.plen)? {
            acc.skip("injected call did not fail (not a failure case)");
            return Ok(());
        }
    }
    // (2)+(3) differential run; the fault-free run is the reference (its failure is a set-up problem)
    let b = run_session(spec, &[], c.plen).map_err(|f| Fail::setup(format!("fault-free reference run failed: {}", f.msg)))?;
    let a = run_session(spec, &c.faults, c.plen)?;
    if a.not_a_failure {
        acc.skip("injected call did not fail (not a failure case)");
        return Ok(());
    }
    for (k, (ma, mb)) in a.t.msgs.iter().zip(b.t.msgs.iter()).enumerate() {
        ensure!(
            ma == mb,
            "{name}: handshake message {k} differs from the fault-free run after injected failure(s) {:?} (first difference at byte {})\n faulty:     {}\n fault-free: {}",
            c.faults,
            first_diff(ma, mb),
            hexs(ma),
            hexs(mb)
        );
    }
    ensure!(a.t.hashes == b.t.hashes, "{name}: handshake hashes differ from the fault-free run after {:?}", c.faults);
    ensure!(a.t.transport == b.t.transport, "{name}: transport messages differ from the fault-free run after {:?}", c.faults);
    for f in &c.faults {
        acc.label(format!("cause:{}", format!("{:?}", f.cause).split('(').next().unwrap()));
        acc.label(format!("fault_at_msg:{}{}", f.idx, if f.idx == spec.n_msgs() { "(transport)" } else { "" }));
        // how many encrypted fixed fields precede the failure point
        if f.idx < spec.n_msgs() {
            let lay = &spec.layouts()[f.idx];
            acc.label(format!("encrypted_fixed_fields_in_msg:{}", lay.fields.iter().filter(|x| x.encrypted).count()));
        }
    }
    acc.label(format!("faults:{}", c.faults.len()));
    acc.label(format!("reps:{}", c.faults.iter().map(|f| f.reps).max().unwrap_or(0)));
    if a.failed_calls > 0 {
        acc.nontrivial(&(name, spec.suite, c.faults.clone(), c.plen));
    }
    Ok(())
}

/// All single faults for a spec.
pub fn faults_for(spec: &SessionSpec, plen: usize) -> Vec<Fault> {
    let mut out = Vec::new();
    let lay = spec.layouts();
    let nm = lay.len();
    for (idx, l) in lay.iter().enumerate() {
        let predicted = l.overhead + plen;
        let mut bufs: Vec<usize> = vec![0];
        for b in boundaries(l, plen) {
            bufs.extend([b.saturating_sub(1), b, b + 1]);
        }
        bufs.sort();
        bufs.dedup();
        for b in bufs {
            if b < predicted {
                out.push(Fault { idx, cause: Cause::WBuf(b), reps: 1 });
            }
        }
        out.push(Fault { idx, cause: Cause::WBuf(predicted.saturating_sub(1)), reps: 3 });
        out.push(Fault { idx, cause: Cause::WBig, reps: 1 });
        out.push(Fault { idx, cause: Cause::WBig, reps: 2 });
        out.push(Fault { idx, cause: Cause::WTurn, reps: 1 });
        for n in psks_in_msg(spec, idx) {
            out.push(Fault { idx, cause: Cause::WPsk(n), reps: 1 });
            out.push(Fault { idx, cause: Cause::WPsk(n), reps: 2 });
            out.push(Fault { idx, cause: Cause::RPsk(n), reps: 1 });
        }
        // one flipped bit in the first and last byte of every field and tag
        let mut positions: Vec<usize> = Vec::new();
        for f in &l.fields {
            positions.extend([f.off, f.off + f.len - 1]);
            if f.encrypted {
                positions.push(f.off + f.len - 16);
            }
        }
        let pstart = l.overhead - if l.payload_encrypted { 16 } else { 0 };
        if plen > 0 {
            positions.extend([pstart, pstart + plen - 1]);
        }
        if l.payload_encrypted {
            positions.extend([pstart + plen, predicted - 1]);
        }
        positions.sort();
        positions.dedup();
        for p in positions {
            out.push(Fault { idx, cause: Cause::RFlip(p, (p % 8) as u8), reps: 1 });
        }
        out.push(Fault { idx, cause: Cause::RFlip(predicted - 1, 0), reps: 3 });
        for b in boundaries(l, plen) {
            for t in [b.saturating_sub(1), b, b + 1] {
                if t < predicted {
                    out.push(Fault { idx, cause: Cause::RTrunc(t), reps: 1 });
                }
            }
        }
        out.push(Fault { idx, cause: Cause::RExtend(1), reps: 1 });
        out.push(Fault { idx, cause: Cause::RExtend(16), reps: 1 });
        out.push(Fault { idx, cause: Cause::RForeign, reps: 1 });
        out.push(Fault { idx, cause: Cause::RPbuf(0), reps: 1 });
        out.push(Fault { idx, cause: Cause::RPbuf(plen.saturating_sub(1)), reps: 2 });
        out.push(Fault { idx, cause: Cause::RTurn, reps: 1 });
        out.push(Fault { idx, cause: Cause::RReflect, reps: 1 });
        out.push(Fault { idx, cause: Cause::BadSetPsk((idx % 3) as u8), reps: 1 + (idx % 2) as u8 });
        out.push(Fault { idx, cause: Cause::RBig, reps: 1 });
        if spec.suite.dh == DhKind::P256 && spec.pattern().with_psks(&spec.hs.psks).map_or(false, |t| t[idx].contains(&Tok::S)) {
            out.push(Fault { idx, cause: Cause::RBadStatic(0), reps: 1 });
            out.push(Fault { idx, cause: Cause::RBadStatic(1), reps: 2 });
        }
    }
    for actor_i in [true, false] {
        for b in [0usize, 1, 15, 16, plen + 15] {
            out.push(Fault { idx: nm, cause: Cause::TWBuf(actor_i, b), reps: 1 });
        }
        out.push(Fault { idx: nm, cause: Cause::TWBig(actor_i), reps: 2 });
        for l in [0usize, 1, 15, 16, 17, 100] {
            out.push(Fault { idx: nm, cause: Cause::TRGarbage(actor_i, l), reps: 1 });
        }
        out.push(Fault { idx: nm, cause: Cause::TRGarbage(actor_i, 40), reps: 3 });
        for l in [0usize, 15, 16, plen + 15] {
            out.push(Fault { idx: nm, cause: Cause::TRTrunc(actor_i, l), reps: 1 });
        }
        for p in [0usize, plen, plen + 15] {
            out.push(Fault { idx: nm, cause: Cause::TRFlip(actor_i, p), reps: 1 });
        }
        out.push(Fault { idx: nm, cause: Cause::TRFlip(actor_i, 3), reps: 3 });
        out.push(Fault { idx: nm, cause: Cause::TRPbuf(actor_i, 0), reps: 1 });
        out.push(Fault { idx: nm, cause: Cause::TRPbuf(actor_i, plen.saturating_sub(1)), reps: 1 });
        out.push(Fault { idx: nm, cause: Cause::TRBig(actor_i), reps: 1 });
        out.push(Fault { idx: nm, cause: Cause::TExhaustWrite(actor_i), reps: 1 });
        out.push(Fault { idx: nm, cause: Cause::TExhaustRead(actor_i), reps: 2 });
    }
    out.push(Fault { idx: nm, cause: Cause::AfterFinishWrite, reps: 1 });
    out.push(Fault { idx: nm, cause: Cause::AfterFinishRead, reps: 2 });
    out.push(Fault { idx: nm, cause: Cause::TOneWayRead, reps: 1 });
    out.push(Fault { idx: nm, cause: Cause::TOneWayWrite, reps: 1 });
    out
}

fn specs(names: &[HsName], per_name_suites: usize, seed: u64) -> Vec<SessionSpec> {
    let suites = all_suites();
    let mut out = Vec::new();
    for (ni, hs) in names.iter().enumerate() {
        for k in 0..per_name_suites {
            let suite = suites[(ni * 7 + k * 5 + 3) % suites.len()];
            let mut s = SessionSpec::simple(hs.clone(), suite, mix(seed, (ni * 31 + k) as u64));
            s.eph = if (ni + k) % 2 == 0 { EphMode::Rng } else { EphMode::Fixed };
            out.push(s);
        }
    }
    out
}

pub fn run(ctx: &Ctx) {
    let names = if ctx.tier == Tier::Thorough { all_hs_names() } else { some_hs_names(5) };
    let sp = specs(&names, ctx.tier.pick(1, 3), ctx.seed);
    let mut cases = Vec::new();
    for s in &sp {
        for f in faults_for(s, 5) {
            cases.push(Case { spec: s.clone(), faults: vec![f], plen: 5, extra_rs: false });
        }
    }
    // the same read-side faults with an unneeded remote static key supplied up front
    for s in sp.iter().filter(|s| s.pattern().remote_static_arrives_at(true).is_some() || s.pattern().remote_static_arrives_at(false).is_some()) {
        for f in faults_for(s, 5) {
            if matches!(f.cause, Cause::RFlip(..) | Cause::RTrunc(_) | Cause::RPbuf(_) | Cause::RExtend(_) | Cause::RForeign) && f.idx < s.n_msgs() && (f.idx + s.hs.psks.len()) % 3 == 0 {
                cases.push(Case { spec: s.clone(), faults: vec![f], plen: 5, extra_rs: true });
            }
        }
    }
    ctx.note(format!("{} session specs, {} single-fault cases", sp.len(), cases.len()));
    ctx.run_list("single_faults", &cases, true, oracle);
    // pairs of DIFFERENT failure kinds on consecutive steps of the same party:
    // (read fault at message i, write fault at message i+1) and (write fault at i, read fault at i+1)
    let mut pairs = Vec::new();
    for s in sp.iter().filter(|s| s.hs.psks.len() <= 1) {
        let all = faults_for(s, 5);
        let nm = s.n_msgs();
        let pick_kind = |idx: usize, want_read: bool| -> Vec<Fault> {
            let mut out: Vec<Fault> = Vec::new();
            for f in all.iter().filter(|f| f.idx == idx && f.reps == 1) {
                let is_read = matches!(f.cause, Cause::RFlip(..) | Cause::RTrunc(_) | Cause::RPbuf(_) | Cause::RExtend(_) | Cause::RForeign | Cause::RPsk(_) | Cause::RBig | Cause::RBadStatic(_));
                let is_write = matches!(f.cause, Cause::WBuf(_) | Cause::WBig | Cause::WPsk(_));
                let kind = format!("{:?}", f.cause);
                let tag = kind.split('(').next().unwrap().to_string();
                if ((want_read && is_read) || (!want_read && is_write)) && !out.iter().any(|g| format!("{:?}", g.cause).starts_with(&tag)) {
                    out.push(f.clone());
                }
            }
            out
        };
        for i in 0..nm.saturating_sub(1) {
            // reader of message i is the writer of message i+1
            for a in pick_kind(i, true) {
                for b in pick_kind(i + 1, false) {
                    if matches!(a.cause, Cause::RPsk(_)) && matches!(b.cause, Cause::WPsk(_)) {
                        continue;
                    }
                    pairs.push(Case { spec: s.clone(), faults: vec![a.clone(), b], plen: 5, extra_rs: false });
                }
            }
            // writer of message i is the reader of message i+1
            for a in pick_kind(i, false) {
                for b in pick_kind(i + 1, true) {
                    if matches!(a.cause, Cause::WPsk(_)) && matches!(b.cause, Cause::RPsk(_)) {
                        continue;
                    }
                    pairs.push(Case { spec: s.clone(), faults: vec![a.clone(), b], plen: 5, extra_rs: false });
                }
            }
        }
    }
    ctx.note(format!("{} fault pairs of different kinds on consecutive steps of one party", pairs.len()));
    ctx.run_list("fault_pairs", &pairs, true, oracle);
    // scattered multi-fault schedules
    let sp = std::sync::Arc::new(specs(&all_hs_names(), 1, ctx.seed ^ 0x77));
    ctx.run_prop(
        "scattered_faults",
        ctx.tier.pick(3000, 60_000),
        || {
            let sp = sp.clone();
            (any::<u16>(), prop::collection::vec((any::<u16>(), 1u8..4), 1..4), 0usize..40).prop_map(move |(si, picks, plen)| {
                let spec = sp[pick(si, sp.len())].clone();
                let all = faults_for(&spec, plen);
                let mut faults: Vec<Fault> = Vec::new();
                for (p, reps) in picks {
                    let mut f = all[pick(p, all.len())].clone();
                    f.reps = reps;
                    // psk faults on the same side/slot cannot be combined twice
                    if matches!(f.cause, Cause::WPsk(_) | Cause::RPsk(_)) && faults.iter().any(|g| matches!(g.cause, Cause::WPsk(_) | Cause::RPsk(_))) {
                        continue;
                    }
                    faults.push(f);
                }
                faults.sort_by_key(|f| f.idx);
                Case { spec, faults, plen, extra_rs: plen % 4 == 0 }
            })
        },
        oracle,
    );
}

pub fn replay(ctx: &Ctx, sub: &str, case: &serde_json::Value, origin: &str) -> bool {
    ctx.replay_case::<Case, _>(sub, case, oracle, origin)
}
