//! C10 Total API: no public operation panics on any input or buffer size.

use super::common::*;
use super::PropDef;
use crate::engine::{expand, mix, Acc, CaseResult, Ctx, Fail, Tier};
use crate::ops;
use crate::refcrypto::DhKind;
use crate::refnoise::{self as rn, FieldKind};
use crate::sess::*;
use proptest::prelude::*;
use serde::{Deserialize, Serialize};

pub const DEF: PropDef = PropDef {
    id: "C10",
    run,
    replay,
    level: "exploration",
    rule: "three generators: (a) boundary sweep - for every (handshake string, DH, message index) one probing call per case on a fresh session driven honestly to that message: writes with every output-buffer length at each field boundary -1/0/+1 and at 0/total/total+16/65535/65536/66000 and payload lengths around the maximum, reads of the genuine message truncated at every boundary +-1, of garbage of those lengths, with payload buffers 0/p-1/p/p+1, and oversize messages; (b) proptest op sequences over the whole public API (name strings incl. edited/non-ASCII/random, builder keys of length 0..=200, prologues up to 66000, psk locations 0..=255 and huge (2^32, 2^63, usize::MAX), reads/writes with arbitrary bytes and buffers 0..=66000, set_psk, getters, Debug formatting of every session object and the raw Split() query after every operation, conversions at any time, transport/stateless ops with boundary nonces, rekeys, nonce setters); (b1) 2 / 4 / 8 threads calling read_message / write_message at once on shared StatelessTransportState objects (it is Sync) with exact-size, slightly larger and ample buffers, genuine and altered messages, both backends; (b2) scalar arguments at their extremes: set_psk(location, key) for 22 locations up to usize::MAX x key lengths 0/31/32/33, nonce setters and stateless nonces at the same 22 values, on fresh / mid-handshake / finished sessions; (c) arbitrary strings to the name parser, and names with 1..5000 modifiers / repeated tokens / every psk index 0..300; every name that parses is built bare AND with all keys and ten PSKs supplied (so that the build passes the prerequisite checks), then written and read once. Oracle: no call unwinds (catch_unwind at the call boundary), every call returns Ok/Err and never a length larger than its output buffer. Non-trivial = a case that got past build and executed at least one read/write; distinct by full case value",
    technique: "robustness fuzzing: exhaustive boundary sweep from reference-model field maps + proptest API op-sequence generation with shrinking (+ libFuzzer target api_ops in the thorough tier)",
    assumptions: &[
        "non-termination and process aborts are only observable as time-outs (exit 2), never decided",
        "RNG output is environment, not input; invalid P-256 private scalars are excluded from the search by construction and probed separately (known finding D4)",
    ],
    panic_is_violation: true,
    needs_refnoise: false,
};

#[derive(Clone, Debug, Serialize, Deserialize)]
pub enum Probe {
    Write { plen: usize, buf: usize },
    /// read the first `len` bytes of the genuine message (payload `plen`), or garbage of that length
    ReadCut { plen: usize, len: usize, garbage: bool, pbuf: usize },
    ReadOversize { len: usize, pbuf: usize },
}

#[derive(Clone, Debug, Serialize, Deserialize)]
pub struct SweepCase {
    pub spec: SessionSpec,
    pub idx: usize,
    pub probe: Probe,
}

/// Drive an honest session up to (not including) message `idx`.
pub fn drive_to(spec: &SessionSpec, idx: usize) -> Result<Pair, Fail> {
    let mut pair = build_pair(spec, None)?;
    for k in 0..idx {
        let payload = spec.payload(k, 3);
        let (w, r) = if k % 2 == 0 { (&mut pair.i, &mut pair.r) } else { (&mut pair.r, &mut pair.i) };
        let msg = hs_write(w, &payload, 65535).map_err(|e| Fail::setup(format!("{}: honest prefix write {k}: {e:?}", spec.name_string())))?;
        hs_read(r, &msg, 65535).map_err(|e| Fail::setup(format!("{}: honest prefix read {k}: {e:?}", spec.name_string())))?;
    }
    Ok(pair)
}

pub fn boundaries(lay: &rn::MsgLayout, plen: usize) -> Vec<usize> {
    let mut b = vec![0usize];
    for f in &lay.fields {
        b.push(f.off);
        b.push(f.off + f.len);
        if f.encrypted {
            b.push(f.off + f.len - 16);
        }
    }
    let fixed = lay.overhead - if lay.payload_encrypted { 16 } else { 0 };
    b.push(fixed);
    b.push(fixed + plen);
    b.push(lay.overhead + plen);
    b.sort();
    b.dedup();
    b
}

pub fn probes_for(lay: &rn::MsgLayout) -> Vec<Probe> {
    let mut out = Vec::new();
    let max = 65535 - lay.overhead;
    for plen in [0usize, 1, 17] {
        let total = lay.overhead + plen;
        let mut bufs: Vec<usize> = Vec::new();
        for b in boundaries(lay, plen) {
            bufs.extend([b.saturating_sub(1), b, b + 1]);
        }
        bufs.extend([total + 15, total + 16, total + 17, 65535, 65536, 66000]);
        bufs.sort();
        bufs.dedup();
        for buf in bufs {
            out.push(Probe::Write { plen, buf });
        }
    }
    for buf in [65535usize, 65536, 65535 + 16, 66000, 70000] {
        for plen in [max.saturating_sub(1), max, max + 1, max + 16, 65535, 65536, 66000] {
            out.push(Probe::Write { plen, buf });
        }
    }
    for plen in [0usize, 17] {
        let total = lay.overhead + plen;
        let mut cuts: Vec<usize> = Vec::new();
        for b in boundaries(lay, plen) {
            cuts.extend([b.saturating_sub(1), b, b + 1]);
        }
        cuts.sort();
        cuts.dedup();
        for len in cuts {
            if len > total {
                continue;
            }
            out.push(Probe::ReadCut { plen, len, garbage: false, pbuf: 66000 });
            out.push(Probe::ReadCut { plen, len, garbage: true, pbuf: 66000 });
        }
        for pbuf in [0usize, plen.saturating_sub(1), plen, plen + 1, plen + 15, plen + 16] {
            out.push(Probe::ReadCut { plen, len: total, garbage: false, pbuf });
            out.push(Probe::ReadCut { plen, len: total, garbage: true, pbuf });
        }
    }
    for len in [65535usize, 65536, 66000] {
        for pbuf in [0usize, 66000] {
            out.push(Probe::ReadOversize { len, pbuf });
        }
    }
    out
}

pub fn sweep_oracle(c: &SweepCase, acc: &mut Acc) -> CaseResult {
    let spec = &c.spec;
    let mut pair = drive_to(spec, c.idx)?;
    let i_sends = c.idx % 2 == 0;
    let (w, r) = if i_sends { (&mut pair.i, &mut pair.r) } else { (&mut pair.r, &mut pair.i) };
    let name = spec.name_string();
    match &c.probe {
        Probe::Write { plen, buf } => {
            let payload = expand(spec.key_seed, 9, *plen);
            let mut out = vec![0u8; *buf];
            let res = call("HandshakeState::write_message", || w.write_message(&payload, &mut out))
                .map_err(|f| Fail { msg: format!("{name} message {} payload {plen} buffer {buf}: {}", c.idx, f.msg), sig: f.sig, setup: f.setup })?;
            if let Ok(n) = res {
                ensure!(n <= *buf, "{name}: write returned {n} for a {buf}-byte buffer");
            }
            acc.label(if res.is_ok() { "write:ok" } else { "write:err" });
        },
        Probe::ReadCut { plen, len, garbage, pbuf } => {
            let payload = expand(spec.key_seed, 9, *plen);
            let msg = hs_write(w, &payload, 65535 + 16).map_err(|e| Fail::setup(format!("{name}: honest write {}: {e:?}", c.idx)))?;
            let mut m = if *garbage { expand(spec.key_seed, 10, *len) } else { msg[..(*len).min(msg.len())].to_vec() };
            if *garbage && *len == msg.len() {
                // same length as the genuine message, genuine prefix, garbage tail
                let keep = msg.len() / 2;
                m[..keep].copy_from_slice(&msg[..keep]);
            }
            let mut out = vec![0u8; *pbuf];
            let res = call("HandshakeState::read_message", || r.read_message(&m, &mut out))
                .map_err(|f| Fail { msg: format!("{name} message {} ({} of {} bytes, garbage={garbage}) payload buffer {pbuf}: {}", c.idx, len, msg.len(), f.msg), sig: f.sig, setup: f.setup })?;
            if let Ok(n) = res {
                ensure!(n <= *pbuf, "{name}: read returned {n} for a {pbuf}-byte buffer");
            }
            acc.label(if res.is_ok() { "read:ok" } else { "read:err" });
        },
        Probe::ReadOversize { len, pbuf } => {
            let m = expand(spec.key_seed, 11, *len);
            let mut out = vec![0u8; *pbuf];
            let res = call("HandshakeState::read_message", || r.read_message(&m, &mut out))
                .map_err(|f| Fail { msg: format!("{name} message {} oversize {len}: {}", c.idx, f.msg), sig: f.sig, setup: f.setup })?;
            acc.label(if res.is_ok() { "read_oversize:ok" } else { "read_oversize:err" });
        },
    }
    acc.label(format!("dh:{}", spec.suite.dh.name()));
    acc.label(format!("msg_idx:{}", c.idx));
    acc.nontrivial(&(name, c.idx, format!("{:?}", c.probe)));
    Ok(())
}

fn sweep_cases(names: &[HsName], seed: u64) -> Vec<SweepCase> {
    let suites = all_suites();
    let mut out = Vec::new();
    for (ni, hs) in names.iter().enumerate() {
        for dh in [DhKind::X25519, DhKind::P256] {
            let suite = *suites.iter().filter(|s| s.dh == dh).nth(ni % 12).unwrap();
            let spec = SessionSpec::simple(hs.clone(), suite, mix(seed, ni as u64));
            for (idx, lay) in spec.layouts().iter().enumerate() {
                for p in probes_for(lay) {
                    out.push(SweepCase { spec: spec.clone(), idx, probe: p });
                }
            }
        }
    }
    out
}

// transport-phase sweep -----------------------------------------------------------------------

#[derive(Clone, Debug, Serialize, Deserialize)]
pub struct TSweepCase {
    pub spec: SessionSpec,
    pub stateless: bool,
    pub write: bool,
    /// payload length (write) / message length (read)
    pub len: usize,
    pub buf: usize,
    pub nonce: u64,
    pub genuine: bool,
}

fn tsweep_oracle(c: &TSweepCase, acc: &mut Acc) -> CaseResult {
    let spec = &c.spec;
    let pair = drive_to(spec, spec.n_msgs())?;
    let name = spec.name_string();
    let what = format!("{name} transport stateless={} write={} len={} buf={} nonce={}", c.stateless, c.write, c.len, c.buf, c.nonce);
    let data = expand(spec.key_seed, 12, c.len);
    let mut out = vec![0u8; c.buf];
    if c.stateless {
        let ti = pair.i.into_stateless_transport_mode().map_err(|e| Fail::setup(format!("{e:?}")))?;
        let tr = pair.r.into_stateless_transport_mode().map_err(|e| Fail::setup(format!("{e:?}")))?;
        if c.write {
            let r = call("StatelessTransportState::write_message", || ti.write_message(c.nonce, &data, &mut out)).map_err(|f| Fail { msg: format!("{what}: {}", f.msg), sig: f.sig, setup: f.setup })?;
            if let Ok(n) = r {
                ensure!(n <= c.buf, "{what}: returned {n}");
            }
        } else {
            let msg = if c.genuine && c.len >= 16 && c.len <= 65535 && c.nonce != u64::MAX {
                sl_write(&ti, c.nonce, &data[..c.len - 16], c.len).map_err(|e| Fail::setup(format!("{what}: genuine write: {e:?}")))?
            } else {
                data.clone()
            };
            let r = call("StatelessTransportState::read_message", || tr.read_message(c.nonce, &msg, &mut out)).map_err(|f| Fail { msg: format!("{what}: {}", f.msg), sig: f.sig, setup: f.setup })?;
            if let Ok(n) = r {
                ensure!(n <= c.buf, "{what}: returned {n}");
            }
        }
    } else {
        let mut ti = pair.i.into_transport_mode().map_err(|e| Fail::setup(format!("{e:?}")))?;
        let mut tr = pair.r.into_transport_mode().map_err(|e| Fail::setup(format!("{e:?}")))?;
        ti.verif_set_sending_nonce(c.nonce);
        tr.set_receiving_nonce(c.nonce);
        if c.write {
            let r = call("TransportState::write_message", || ti.write_message(&data, &mut out)).map_err(|f| Fail { msg: format!("{what}: {}", f.msg), sig: f.sig, setup: f.setup })?;
            if let Ok(n) = r {
                ensure!(n <= c.buf, "{what}: returned {n}");
            }
        } else {
            let msg = if c.genuine && c.len >= 16 && c.len <= 65535 && c.nonce != u64::MAX {
                t_write(&mut ti, &data[..c.len - 16], c.len).map_err(|e| Fail::setup(format!("{what}: genuine write: {e:?}")))?
            } else {
                data.clone()
            };
            let r = call("TransportState::read_message", || tr.read_message(&msg, &mut out)).map_err(|f| Fail { msg: format!("{what}: {}", f.msg), sig: f.sig, setup: f.setup })?;
            if let Ok(n) = r {
                ensure!(n <= c.buf, "{what}: returned {n}");
            }
        }
    }
    acc.label(if c.stateless { "transport:stateless" } else { "transport:stateful" });
    acc.nontrivial(&what);
    Ok(())
}

fn tsweep_cases(seed: u64) -> Vec<TSweepCase> {
    let mut out = Vec::new();
    let suites = all_suites();
    let lens = [0usize, 1, 15, 16, 17, 31, 32, 33, 100, 65519, 65520, 65534, 65535, 65536, 66000];
    for (k, pat) in ["NN", "N", "XX", "K"].iter().enumerate() {
        for (si, suite) in suites.iter().enumerate() {
            if (si + k) % 4 != 0 {
                continue;
            }
            let spec = SessionSpec::simple(HsName { pattern: pat.to_string(), psks: vec![] }, *suite, mix(seed, 40 + k as u64));
            for stateless in [false, true] {
                for write in [true, false] {
                    for &len in &lens {
                        let mut bufs = vec![0usize, len.saturating_sub(17), len.saturating_sub(16), len.saturating_sub(15), len.saturating_sub(1), len, len + 1, len + 15, len + 16, len + 17, 66000];
                        bufs.sort();
                        bufs.dedup();
                        for buf in bufs {
                            for nonce in [0u64, u64::MAX - 1, u64::MAX] {
                                for genuine in [true, false] {
                                    if write && !genuine {
                                        continue;
                                    }
                                    out.push(TSweepCase { spec: spec.clone(), stateless, write, len, buf, nonce, genuine });
                                }
                            }
                        }
                    }
                }
            }
        }
    }
    out
}

// op sequences -------------------------------------------------------------------------------

pub fn script_oracle(s: &ops::Script, acc: &mut Acc) -> CaseResult {
    let st = ops::execute(s)?;
    acc.label(format!("parsed:{}", st.parsed));
    if st.parsed {
        acc.label(format!("built:{}", st.built.iter().filter(|b| **b).count()));
    }
    acc.label(format!("hs_ok_writes:{}", st.hs_ok_writes.min(4)));
    acc.label(format!("hs_ok_reads:{}", st.hs_ok_reads.min(4)));
    acc.label(format!("transport_ok_ops:{}", (st.t_ok_writes + st.t_ok_reads).min(5)));
    acc.label(format!("converted:{}", st.converted));
    if st.excluded_p256_scalar > 0 {
        acc.skip("P-256 private key bytes forced into [1, n-1] (known finding D4 excluded by construction)");
    }
    if st.built.iter().any(|b| *b) && st.hs_ok_writes + st.hs_ok_reads + st.errs > 0 && !s.ops.is_empty() {
        acc.nontrivial(&format!("{s:?}"));
    }
    Ok(())
}

/// Scalar arguments of the API at their extremes: `set_psk(location: usize, key)` for huge
/// locations and every key length around 32, `set_receiving_nonce` / the stateless nonce
/// argument at boundary values, on sessions in three states (fresh, mid-handshake, finished).
#[derive(Clone, Debug, Serialize, Deserialize)]
pub struct ScalarCase {
    pub hs: String,
    pub psks: Vec<u8>,
    pub initiator: bool,
    /// messages processed before the probe (capped at the pattern's length)
    pub progress: usize,
    pub loc: u64,
    pub keylen: usize,
}

pub const SCALARS: [u64; 22] =
    [0, 1, 2, 9, 10, 11, 255, 256, 257, 65535, 65536, (1 << 31) - 1, 1 << 31, (1 << 32) - 1, 1 << 32, (1 << 32) + 1, 1 << 48, (1 << 63) - 1, 1 << 63, u64::MAX - 2, u64::MAX - 1, u64::MAX];

fn scalar_oracle(c: &ScalarCase, acc: &mut Acc) -> CaseResult {
    let suite = all_suites()[0];
    let spec = SessionSpec::simple(HsName { pattern: c.hs.clone(), psks: c.psks.clone() }, suite, 0xC105);
    let progress = c.progress.min(spec.n_msgs());
    let pair = drive_to(&spec, progress)?;
    let mut h = if c.initiator { pair.i } else { pair.r };
    let key = vec![0x5au8; c.keylen];
    let loc = c.loc as usize;
    let r = call("HandshakeState::set_psk", || h.set_psk(loc, &key))?;
    acc.label(if r.is_ok() { "set_psk:ok" } else { "set_psk:err" });
    if progress == spec.n_msgs() {
        let oneway = spec.pattern().is_oneway();
        let _ = oneway;
        let mut buf = vec![0u8; 64];
        // stateless calls with the scalar as the nonce; stateful nonce setter
        let pair2 = drive_to(&spec, progress)?;
        let h2 = if c.initiator { pair2.i } else { pair2.r };
        let st = call("into_stateless_transport_mode", || h2.into_stateless_transport_mode())?.map_err(|x| Fail::setup(format!("{x:?}")))?;
        let _ = call("StatelessTransportState::write_message", || st.write_message(c.loc, b"abc", &mut buf))?;
        let _ = call("StatelessTransportState::read_message", || st.read_message(c.loc, &[7u8; 30], &mut buf))?;
        let mut tt = call("into_transport_mode", || h.into_transport_mode())?.map_err(|x| Fail::setup(format!("{x:?}")))?;
        call("TransportState::set_receiving_nonce", || tt.set_receiving_nonce(c.loc))?;
        let _ = call("TransportState::read_message", || tt.read_message(&[7u8; 30], &mut buf))?;
        call("TransportState::verif_set_sending_nonce", || tt.verif_set_sending_nonce(c.loc))?;
        let _ = call("TransportState::write_message", || tt.write_message(b"abc", &mut buf))?;
        let _ = call("TransportState::write_message", || tt.write_message(b"abc", &mut buf))?;
        call("TransportState::rekey_outgoing", || tt.rekey_outgoing())?;
        let _ = call("TransportState::sending_nonce", || tt.sending_nonce())?;
        acc.label("transport_scalars");
    }
    acc.nontrivial(&format!("{c:?}"));
    Ok(())
}

/// `StatelessTransportState` takes `&self` and is `Sync`: calls from several threads at once on
/// one object must not panic either (exact-size, slightly larger and ample buffers; genuine and
/// altered messages; both backends).
#[derive(Clone, Debug, Serialize, Deserialize)]
pub struct ConcCase {
    pub suite_idx: usize,
    pub backend: crate::instr::Backend,
    pub threads: usize,
    pub plen: usize,
    pub seed: u64,
}

fn conc_oracle(c: &ConcCase, acc: &mut Acc) -> CaseResult {
    let suites = all_suites();
    let suite = suites[c.suite_idx % suites.len()];
    let mut spec = SessionSpec::simple(HsName { pattern: "NN".into(), psks: vec![] }, suite, c.seed);
    if ring_covers(suite) {
        spec.backend_i = c.backend;
        spec.backend_r = c.backend;
    }
    let pair = drive_to(&spec, 2)?;
    let ti = call("into_stateless_transport_mode", || pair.i.into_stateless_transport_mode())?.map_err(|x| Fail::setup(format!("{x:?}")))?;
    let tr = call("into_stateless_transport_mode", || pair.r.into_stateless_transport_mode())?.map_err(|x| Fail::setup(format!("{x:?}")))?;
    let payload = expand(c.seed, 3, c.plen);
    let mut msgs = Vec::new();
    for n in 0..8u64 {
        let mut buf = vec![0u8; c.plen + 16];
        let l = ti.write_message(n, &payload, &mut buf).map_err(|x| Fail::setup(format!("{x:?}")))?;
        msgs.push(buf[..l].to_vec());
    }
    let (ti, tr, msgs, payload) = (&ti, &tr, &msgs, &payload);
    let results: Vec<CaseResult> = std::thread::scope(|sc| {
        let hs: Vec<_> = (0..c.threads)
            .map(|t| {
                sc.spawn(move || -> CaseResult {
                    for round in 0..60usize {
                        let n = ((t + round) % 8) as u64;
                        let slack = [0usize, 1, 15, 16, 100][(t + round) % 5];
                        let mut out = vec![0u8; payload.len() + slack];
                        let mut m = msgs[n as usize].clone();
                        if round % 7 == 3 {
                            let l = m.len();
                            m[l - 1] ^= 1;
                        }
                        let _ = call("StatelessTransportState::read_message (concurrent)", || tr.read_message(n, &m, &mut out))?;
                        let mut wb = vec![0u8; payload.len() + 16];
                        let _ = call("StatelessTransportState::write_message (concurrent)", || ti.write_message(n + 100, payload, &mut wb))?;
                    }
                    Ok(())
                })
            })
            .collect();
        hs.into_iter().map(|h| h.join().unwrap_or_else(|_| Err(Fail::new("a worker thread panicked outside a guarded call")))).collect()
    });
    for r in results {
        r?;
    }
    acc.label(format!("concurrent:{}threads", c.threads));
    acc.nontrivial(&format!("{c:?}"));
    Ok(())
}

#[derive(Clone, Debug, Serialize, Deserialize)]
pub struct ParseCase {
    pub s: String,
}

fn parse_oracle(c: &ParseCase, acc: &mut Acc) -> CaseResult {
    let r = call("NoiseParams::from_str", || c.s.parse::<snow::params::NoiseParams>())?;
    acc.label(if r.is_ok() { "parse:ok" } else { "parse:err" });
    if let Ok(p) = r {
        // building from any parsed value must not panic either
        let _ = call("Builder::build (bare)", || snow::Builder::new(p.clone()).build_initiator().is_ok())?;
        let _ = call("Builder::build (bare)", || snow::Builder::new(p.clone()).build_responder().is_ok())?;
        // ... and with every key a pattern may ask for (so that the build gets past the
        // prerequisite checks) and PSKs in all ten slots
        let (sl, rl) = match p.dh {
            snow::params::DHChoice::P256 => (32usize, 65usize),
            _ => (32, 32),
        };
        let mut rs = vec![9u8; rl];
        if rl == 65 {
            rs = crate::refcrypto::dh_pub(crate::refcrypto::DhKind::P256, &[5u8; 32]).unwrap_or(rs);
        }
        for initiator in [true, false] {
            let pp = p.clone();
            let rs = rs.clone();
            let _ = call("Builder::build (all keys)", move || {
                let sk = vec![7u8; sl];
                let psks: Vec<[u8; 32]> = (0..10u8).map(|n| [n; 32]).collect();
                let mut b = snow::Builder::new(pp);
                b = match b.local_private_key(&sk) {
                    Ok(b) => b,
                    Err(_) => return false,
                };
                b = match b.remote_public_key(&rs) {
                    Ok(b) => b,
                    Err(_) => return false,
                };
                for n in 0..10u8 {
                    b = match b.psk(n, &psks[n as usize]) {
                        Ok(b) => b,
                        Err(_) => return false,
                    };
                }
                let h = if initiator { b.build_initiator() } else { b.build_responder() };
                match h {
                    Ok(mut h) => {
                        let mut buf = vec![0u8; 1024];
                        let _ = format!("{:?}", h);
                        let _ = h.write_message(b"x", &mut buf);
                        let _ = h.read_message(&[0u8; 100], &mut buf);
                        let _ = format!("{:?}", h);
                        true
                    },
                    Err(_) => false,
                }
            })?;
        }
    }
    acc.nontrivial(&c.s);
    Ok(())
}

// known-finding probes -----------------------------------------------------------------------

#[derive(Clone, Debug, Serialize, Deserialize)]
pub struct P256ScalarCase {
    pub which: u8,
    pub role_initiator: bool,
    pub as_fixed_ephemeral: bool,
}

/// D4: a P-256 private key that is zero or >= the group order.
fn p256_scalar_oracle(c: &P256ScalarCase, acc: &mut Acc) -> CaseResult {
    let key: Vec<u8> = match c.which {
        0 => vec![0u8; 32],
        1 => crate::refcrypto::P256_ORDER.to_vec(),
        2 => vec![0xff; 32],
        _ => vec![],
    };
    let params: snow::params::NoiseParams = if c.as_fixed_ephemeral { "Noise_NN_P256_ChaChaPoly_SHA256" } else { "Noise_XX_P256_ChaChaPoly_SHA256" }.parse().map_err(|e| Fail::setup(format!("{e:?}")))?;
    acc.label("p256_invalid_scalar_probe");
    acc.nontrivial(&(c.which, c.role_initiator, c.as_fixed_ephemeral));
    let r = call("Builder::build", || {
        let b = snow::Builder::new(params);
        let b = if c.as_fixed_ephemeral { b.fixed_ephemeral_key_for_testing_only(&key) } else { b.local_private_key(&key).unwrap() };
        if c.role_initiator {
            b.build_initiator().map(|_| ())
        } else {
            b.build_responder().map(|_| ())
        }
    });
    match r {
        Ok(_) => Ok(()),
        Err(f) => Err(Fail { msg: format!("P-256 private key {} : {}", hex::encode(&key), f.msg), sig: Some("panic|Builder::build|P-256 private scalar zero or >= group order".into()), setup: false }),
    }
}

pub fn run(ctx: &Ctx) {
    let seed = ctx.seed;
    let names = if ctx.tier == Tier::Thorough { all_hs_names() } else { some_hs_names(3) };
    let cases = sweep_cases(&names, seed);
    ctx.note(format!("boundary sweep: {} handshake strings x 2 DH, {} probing calls", names.len(), cases.len()));
    ctx.run_list("boundary_sweep", &cases, true, sweep_oracle);
    let tcases = tsweep_cases(seed);
    ctx.run_list("transport_sweep", &tcases, true, tsweep_oracle);
    // dense: every transport message length up to 2400 (thorough 9000), genuine and garbage, read
    // into exact / +1 / +15 / ample buffers, on the default AND the ring backend
    {
        let suites = all_suites();
        let mut dense = Vec::new();
        for len in 0..=ctx.tier.pick(2400usize, 9000) {
            for (bi, backend) in [crate::instr::Backend::Default, crate::instr::Backend::RingFirst].into_iter().enumerate() {
                let suite = *suites.iter().filter(|s| ring_covers(**s)).nth((len + bi) % 4).unwrap();
                let mut spec = SessionSpec::simple(HsName { pattern: ["NN", "N"][len % 2].to_string(), psks: vec![] }, suite, mix(seed, 91));
                spec.backend_i = backend;
                spec.backend_r = backend;
                let slack = [0usize, 1, 15, 66000][(len / 2 + bi) % 4];
                dense.push(TSweepCase { spec, stateless: len % 3 == 0, write: false, len, buf: len.saturating_sub(16) + slack, nonce: 0, genuine: len % 5 != 0 });
            }
        }
        // above the dense range: every 3rd length up to the maximum; the four buffer relations rotate,
        // so each relation sees every 12th length (any 16-byte window is hit with each relation)
        let top = ctx.tier.pick(2400usize, 9000);
        for (k, len) in (top + 1..=65535).step_by(ctx.tier.pick(8, 3)).enumerate() {
            let backend = if k % 2 == 0 { crate::instr::Backend::RingFirst } else { crate::instr::Backend::Default };
            let suite = *suites.iter().filter(|s| ring_covers(**s)).nth((k / 2) % 4).unwrap();
            let mut spec = SessionSpec::simple(HsName { pattern: "NN".to_string(), psks: vec![] }, suite, mix(seed, 92));
            spec.backend_i = backend;
            spec.backend_r = backend;
            // tight buffers only (exact / +15): the relation that selects special decrypt paths
            let slack = [0usize, 15][(k / 2) % 2];
            dense.push(TSweepCase { spec, stateless: k % 3 == 0, write: false, len, buf: len.saturating_sub(16) + slack, nonce: 0, genuine: k % 7 != 0 });
        }
        ctx.run_list("dense_lengths_both_backends", &dense, true, tsweep_oracle);
    }
    ctx.run_prop("op_sequences", ctx.tier.pick(40_000, 600_000), || ops::script_strategy(24), script_oracle);
    ctx.run_prop(
        "parse_strings",
        ctx.tier.pick(30_000, 300_000),
        || {
            prop_oneof![
                2 => "\\PC{0,60}",
                2 => "[Noise_XKI1NpskfalbchP2569+ASGCMHBE0-9]{0,50}",
                3 => (any::<u16>(), 0u8..24, any::<u16>(), 0u8..5, any::<u8>()).prop_map(|(h, s, p, k, c)| ops::name_string(&ops::NameSel::Edited(h, s, p, k, c))),
            ]
            .prop_map(|s| ParseCase { s })
        },
        parse_oracle,
    );
    // concurrent calls on shared stateless sessions
    {
        let mut cc = Vec::new();
        for suite_idx in 0..12usize {
            for backend in [crate::instr::Backend::Default, crate::instr::Backend::RingFirst] {
                for (k, plen) in [0usize, 33, 1500, 9000].iter().enumerate() {
                    cc.push(ConcCase { suite_idx, backend, threads: [2usize, 4, 8][(suite_idx + k) % 3], plen: *plen, seed: mix(ctx.seed, 71_000 + (suite_idx * 8 + k) as u64) });
                }
            }
        }
        // sequentially (each case spawns its own threads)
        ctx.run_list("concurrent_stateless_calls", &cc, false, conc_oracle);
    }
    // scalar arguments at their extremes
    {
        let mut sc = Vec::new();
        for (hs, psks) in [("NN", vec![]), ("NN", vec![0u8]), ("XX", vec![3u8]), ("N", vec![]), ("IK", vec![1u8, 2])] {
            for initiator in [true, false] {
                for progress in [0usize, 1, 9] {
                    for loc in SCALARS {
                        for keylen in [0usize, 31, 32, 33] {
                            if keylen != 32 && loc > 11 && loc != u64::MAX {
                                continue;
                            }
                            sc.push(ScalarCase { hs: hs.to_string(), psks: psks.clone(), initiator, progress, loc, keylen });
                        }
                    }
                }
            }
        }
        ctx.run_list("scalar_arguments", &sc, true, scalar_oracle);
    }
    // long and repetitive names (hundreds of modifiers, repeated tokens)
    {
        let mut long = Vec::new();
        for pat in ["NN", "XX", "IK", "X1X1", "N"] {
            for k in [1usize, 2, 5, 10, 11, 38, 39, 40, 100, 255, 256, 257, 300, 1000, 5000] {
                let asc: Vec<String> = (0..k).map(|n| format!("psk{}", n % 256)).collect();
                let small: Vec<String> = (0..k).map(|n| format!("psk{}", n % 5)).collect();
                let fb: Vec<String> = (0..k).map(|_| "fallback".to_string()).collect();
                for m in [asc, small, fb] {
                    long.push(ParseCase { s: format!("Noise_{pat}{}_25519_ChaChaPoly_SHA256", m.join("+")) });
                    long.push(ParseCase { s: format!("Noise_{pat}{}_P256_AESGCM_BLAKE2b", m.concat()) });
                }
                long.push(ParseCase { s: format!("Noise_{pat}{}_25519_ChaChaPoly_SHA256", "psk".repeat(k)) });
                long.push(ParseCase { s: format!("Noise_{pat}psk{}_25519_ChaChaPoly_SHA256", "9".repeat(k)) });
                long.push(ParseCase { s: format!("Noise_{pat}psk{}1_25519_ChaChaPoly_SHA256", "0".repeat(k)) });
                long.push(ParseCase { s: format!("Noise{}{pat}_25519_ChaChaPoly_SHA256", "_".repeat(k)) });
                long.push(ParseCase { s: format!("Noise_{pat}_25519_ChaChaPoly_SHA256{}", "_x".repeat(k)) });
                long.push(ParseCase { s: format!("Noise_{}_25519_ChaChaPoly_SHA256", pat.repeat(k)) });
            }
            for n in 0..=300u32 {
                long.push(ParseCase { s: format!("Noise_{pat}psk{n}_25519_AESGCM_SHA512") });
                long.push(ParseCase { s: format!("Noise_{pat}psk0+psk{n}_P256_AESGCM_SHA512") });
            }
        }
        ctx.run_list("long_and_indexed_names", &long, false, parse_oracle);
    }
    let probes: Vec<P256ScalarCase> = (0..3u8)
        .flat_map(|w| [(w, true, false), (w, false, false), (w, true, true)])
        .map(|(which, role_initiator, as_fixed_ephemeral)| P256ScalarCase { which, role_initiator, as_fixed_ephemeral })
        .collect();
    ctx.run_list("known_p256_invalid_scalar", &probes, true, p256_scalar_oracle);
}

pub fn replay(ctx: &Ctx, sub: &str, case: &serde_json::Value, origin: &str) -> bool {
    match sub {
        "boundary_sweep" => ctx.replay_case::<SweepCase, _>(sub, case, sweep_oracle, origin),
        "transport_sweep" | "dense_lengths_both_backends" => ctx.replay_case::<TSweepCase, _>(sub, case, tsweep_oracle, origin),
        "concurrent_stateless_calls" => ctx.replay_case::<ConcCase, _>(sub, case, conc_oracle, origin),
        "scalar_arguments" => ctx.replay_case::<ScalarCase, _>(sub, case, scalar_oracle, origin),
        "parse_strings" | "long_and_indexed_names" => ctx.replay_case::<ParseCase, _>(sub, case, parse_oracle, origin),
        "known_p256_invalid_scalar" => ctx.replay_case::<P256ScalarCase, _>(sub, case, p256_scalar_oracle, origin),
        "fuzz_bytes" => {
            let bytes: Vec<u8> = serde_json::from_value(case.clone()).unwrap_or_default();
            let script = serde_json::to_value(ops::decode(&bytes)).unwrap();
            ctx.replay_case::<ops::Script, _>("op_sequences", &script, script_oracle, origin)
        },
        _ => ctx.replay_case::<ops::Script, _>(sub, case, script_oracle, origin),
    }
}

#[allow(dead_code)]
fn _unused(_: FieldKind) {}
