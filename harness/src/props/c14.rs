//! C14 Message framing: exact lengths, 65535-byte limit, no overrun.

use super::c10::drive_to;
use super::common::*;
use super::PropDef;
use crate::engine::{expand, mix, Acc, CaseResult, Ctx, Fail, Tier};
use crate::refcrypto::DhKind;
use crate::sess::*;
use proptest::prelude::*;
use serde::{Deserialize, Serialize};
use snow::Error;

pub const DEF: PropDef = PropDef {
    id: "C14",
    run,
    replay,
    level: "exploration",
    rule: "(transport) messages LONGER than 65535 bytes that are valid ciphertexts under the session key (sealed with the reference cipher under the reference Split() keys; lengths 65536, 65537, +15, +16, +17, +32, +100; stateful and stateless; both backends) must be refused, while the 65535-byte one sealed the same way is accepted; enumeration: for every handshake string x DH x message index, payload lengths {0,1,16,17, classes, max-2..max+2, 65535, 66000} x output buffers {predicted-17..predicted+17 around the prediction, 0, 65535, 65536, 66000}; reads of genuine messages with payload buffers around the payload length, of messages shorter than the fixed fields (every length in thorough) and longer than 65535; transport and stateless likewise. Names with the `448` DH choice run on both ends over a custom resolver whose DH has 56-byte keys (a toy function, framing only): lengths predicted with 56-byte key fields, every length below the fixed fields refused. One session in five has PSKs in slots the name does not use (also names without a psk modifier). Prediction = sum of public-key lengths + 16 per encrypted field + payload length from the reference field map. Non-trivial = the call's outcome is constrained by the property (must succeed with the exact length, or must fail with the input error); distinct by (name, message, payload length, buffer length, kind)",
    technique: "boundary-value enumeration against a reference length model (field maps of the clean-room Noise model)",
    assumptions: &[
        "between `predicted` and `predicted+15` bytes of output buffer either outcome is accepted: no listed property says an exactly fitting buffer must succeed, and the code asks for 16 spare bytes even for an unencrypted payload",
    ],
    panic_is_violation: true,
    needs_refnoise: true,
};

/// A call that the length model says must succeed returned an error. `Err(Input)` is the
/// framing error (the implementation measured the message or the buffer differently from the
/// specification): a violation of this property. Any other error kind (missing PSK, DH,
/// decryption, state) means that an honest operation failed for a reason that has nothing to do
/// with lengths - other properties' business (C02/C07/C12/C18): reported as a set-up failure.
fn must_succeed<T: std::fmt::Debug>(res: &Result<T, Error>, ctx: &str, what: &str) -> CaseResult {
    match res {
        Ok(_) => Ok(()),
        Err(Error::Input) => Err(Fail::new(format!("{ctx}: {what}, got Err(Input)"))),
        Err(x) => Err(Fail::setup(format!("{ctx}: {what}, but the call failed for a reason unrelated to framing: {x:?}"))),
    }
}

/// `drive_to`, but in one session out of five both endpoints first receive PSKs in slots the
/// name does not use (on names without any psk modifier too): the documentation allows that
/// ("Snow won't stop you from placing a PSK in an unused slot") and the specification's message
/// lengths do not depend on it.
fn drive_to_maybe_stray(spec: &SessionSpec, idx: usize) -> Result<Pair, Fail> {
    if spec.key_seed % 5 != 2 {
        return drive_to(spec, idx);
    }
    let mut pair = build_pair(spec, None)?;
    for slot in 0..10u8 {
        if !spec.hs.psks.contains(&slot) && (spec.key_seed >> (8 + slot)) & 1 == 1 {
            let k = crate::engine::expand32(spec.key_seed, 700 + slot as u64);
            pair.i.set_psk(slot as usize, &k).map_err(|x| Fail::setup(format!("set_psk({slot}): {x:?}")))?;
            pair.r.set_psk(slot as usize, &k).map_err(|x| Fail::setup(format!("set_psk({slot}): {x:?}")))?;
        }
    }
    for k in 0..idx {
        let payload = spec.payload(k, 3);
        let (w, r) = if k % 2 == 0 { (&mut pair.i, &mut pair.r) } else { (&mut pair.r, &mut pair.i) };
        let msg = hs_write(w, &payload, 65535).map_err(|e| Fail::setup(format!("{}: honest prefix write {k}: {e:?}", spec.name_string())))?;
        hs_read(r, &msg, 65535).map_err(|e| Fail::setup(format!("{}: honest prefix read {k}: {e:?}", spec.name_string())))?;
    }
    Ok(pair)
}

#[derive(Clone, Debug, Serialize, Deserialize)]
pub enum Kind {
    HsWrite { plen: usize, buf: usize },
    /// genuine message with payload `plen`, read into a `pbuf`-byte buffer
    HsReadGenuine { plen: usize, pbuf: usize },
    /// the first `len` bytes of the genuine message (len < fixed overhead)
    HsReadShort { len: usize },
    /// arbitrary bytes of length `len`
    HsReadRaw { len: usize },
}

#[derive(Clone, Debug, Serialize, Deserialize)]
pub struct Case {
    pub spec: SessionSpec,
    pub idx: usize,
    pub kind: Kind,
}

fn oracle(c: &Case, acc: &mut Acc) -> CaseResult {
    let spec = &c.spec;
    let name = spec.name_string();
    let lay = &spec.layouts()[c.idx];
    let mut pair = drive_to_maybe_stray(spec, c.idx)?;
    if spec.key_seed % 5 == 2 {
        acc.label("stray_psks_in_unused_slots");
    }
    let i_sends = c.idx % 2 == 0;
    let (w, r) = if i_sends { (&mut pair.i, &mut pair.r) } else { (&mut pair.r, &mut pair.i) };
    match &c.kind {
        Kind::HsWrite { plen, buf } => {
            let predicted = lay.overhead + plen;
            let payload = expand(spec.key_seed, 9, *plen);
            let mut out = vec![0u8; *buf];
            let res = call("HandshakeState::write_message", || w.write_message(&payload, &mut out))
                .map_err(|f| Fail { msg: format!("{name} message {} payload {plen} buffer {buf} (predicted {predicted}): {}", c.idx, f.msg), sig: f.sig, setup: f.setup })?;
            let ctx = format!("{name} message {} payload {plen} buffer {buf}: predicted length {predicted} (overhead {})", c.idx, lay.overhead);
            if let Ok(n) = res {
                ensure!(n == predicted, "{ctx}: write returned {n}");
                ensure!(n <= 65535, "{ctx}: wrote a message longer than 65535");
                ensure!(n <= *buf, "{ctx}: returned more than the buffer");
            }
            if predicted > *buf || predicted > 65535 {
                if res.is_err() && res != Err(Error::Input) {
                    // control: the same call with a small payload and an ample buffer on a fresh,
                    // identically driven session. If that fails with the same error, the call
                    // fails for a reason unrelated to framing (not this property's business)
                    let mut p2 = drive_to_maybe_stray(spec, c.idx)?;
                    let w2 = if i_sends { &mut p2.i } else { &mut p2.r };
                    let mut big = vec![0u8; 65535];
                    let ctl = w2.write_message(&payload[..payload.len().min(3)], &mut big);
                    if ctl.is_err() && ctl.as_ref().err() == res.as_ref().err() {
                        return Err(Fail::setup(format!("{ctx}: the write fails with {res:?} even with an ample buffer (unrelated to framing)")));
                    }
                }
                ensure!(res == Err(Error::Input), "{ctx}: the message does not fit, expected Err(Input), got {res:?}");
                acc.label("write:must_fail");
                acc.nontrivial(&(name, c.idx, *plen, *buf, 0));
            } else if *buf >= predicted + 16 {
                must_succeed(&res, &ctx, &format!("ample buffer, expected Ok({predicted})"))?;
                acc.label("write:must_succeed");
                acc.nontrivial(&(name, c.idx, *plen, *buf, 1));
            } else {
                acc.label(if res.is_ok() { "write:band_ok" } else { "write:band_err" });
            }
        },
        Kind::HsReadGenuine { plen, pbuf } => {
            let payload = expand(spec.key_seed, 9, *plen);
            let msg = hs_write(w, &payload, 65535 + 16).map_err(|e| Fail::setup(format!("{name}: honest write {} (payload {plen}): {e:?}", c.idx)))?;
            let mut out = vec![0u8; *pbuf];
            let res = call("HandshakeState::read_message", || r.read_message(&msg, &mut out))?;
            let ctx = format!("{name} message {} ({} bytes, payload {plen}) payload buffer {pbuf}", c.idx, msg.len());
            if let Ok(n) = res {
                ensure!(n == msg.len() - lay.overhead, "{ctx}: read returned {n}, expected message length - overhead = {}", msg.len() - lay.overhead);
                ensure!(n <= *pbuf, "{ctx}: returned more than the buffer");
                ensure!(out[..n] == payload[..], "{ctx}: payload bytes differ");
            }
            if *pbuf >= *plen {
                must_succeed(&res, &ctx, "genuine message and adequate buffer")?;
                acc.label("read:must_succeed");
                acc.nontrivial(&(name, c.idx, *plen, *pbuf, 2));
            } else {
                ensure!(res.is_err(), "{ctx}: payload cannot fit, but got {res:?}");
                acc.label("read:small_buffer");
                acc.nontrivial(&(name, c.idx, *plen, *pbuf, 3));
            }
        },
        Kind::HsReadShort { len } => {
            let payload = expand(spec.key_seed, 9, 5);
            let msg = hs_write(w, &payload, 65535).map_err(|e| Fail::setup(format!("{name}: honest write {}: {e:?}", c.idx)))?;
            let cut = &msg[..(*len).min(msg.len())];
            let mut out = vec![0u8; 65535];
            let res = call("HandshakeState::read_message", || r.read_message(cut, &mut out))?;
            if *len < lay.overhead {
                ensure!(res.is_err(), "{name} message {}: {len} bytes is shorter than the fixed fields ({}), but read returned {res:?}", c.idx, lay.overhead);
                acc.label("read:short_must_fail");
                acc.nontrivial(&(name, c.idx, *len, 0usize, 4));
            }
        },
        Kind::HsReadRaw { len } => {
            let m = expand(spec.key_seed, 11, *len);
            let mut out = vec![0u8; 70000];
            let res = call("HandshakeState::read_message", || r.read_message(&m, &mut out))?;
            if *len > 65535 {
                ensure!(res.is_err(), "{name} message {}: a {len}-byte message was accepted: {res:?}", c.idx);
                acc.label("read:oversize_must_fail");
                acc.nontrivial(&(name, c.idx, *len, 0usize, 5));
            } else if *len < lay.overhead {
                ensure!(res.is_err(), "{name} message {}: {len} arbitrary bytes shorter than the fixed fields ({}) accepted: {res:?}", c.idx, lay.overhead);
                acc.label("read:short_must_fail");
                acc.nontrivial(&(name, c.idx, *len, 1usize, 4));
            } else if let Ok(n) = res {
                ensure!(n == len - lay.overhead, "{name} message {}: read of {len} bytes returned {n}, expected {}", c.idx, len - lay.overhead);
                acc.label("read:raw_accepted_exact_len");
                acc.nontrivial(&(name, c.idx, *len, 2usize, 6));
            }
        },
    }
    acc.label(format!("dh:{}", spec.suite.dh.name()));
    Ok(())
}

fn cases(names: &[HsName], dhs: &[DhKind], thorough: bool, seed: u64) -> Vec<Case> {
    let suites = all_suites();
    let mut out = Vec::new();
    for (ni, hs) in names.iter().enumerate() {
        for (di, dh) in dhs.iter().enumerate() {
            if !thorough && dhs.len() > 1 && (ni + di) % 2 == 1 {
                continue; // quick: alternate the DH over the names
            }
            let suite = *suites.iter().filter(|s| s.dh == *dh).nth((ni * 5 + 1) % 12).unwrap();
            let mut spec = SessionSpec::simple(hs.clone(), suite, mix(seed, ni as u64));
            if ring_covers(suite) && ni % 2 == 0 {
                spec.backend_i = crate::instr::Backend::RingFirst;
                spec.backend_r = crate::instr::Backend::RingFirst;
            }
            for (idx, lay) in spec.layouts().iter().enumerate() {
                let max = 65535 - lay.overhead;
                let mut push = |kind: Kind| out.push(Case { spec: spec.clone(), idx, kind });
                // writes
                for plen in [0usize, 1, 17, 1000] {
                    let p = lay.overhead + plen;
                    let deltas: Vec<i64> = if thorough { (-17..=17).collect() } else { vec![-17, -16, -1, 0, 1, 15, 16, 17] };
                    for d in deltas {
                        let b = p as i64 + d;
                        if b >= 0 {
                            push(Kind::HsWrite { plen, buf: b as usize });
                        }
                    }
                    push(Kind::HsWrite { plen, buf: 0 });
                    push(Kind::HsWrite { plen, buf: 65535 });
                }
                for (pk, plen) in [max - 2, max - 1, max, max + 1, max + 2, max + 16, 65535, 66000].into_iter().enumerate() {
                    for (bk, buf) in [65535usize, 65536, 65535 + 15, 65535 + 16, 65535 + 17, 66000, 70000].into_iter().enumerate() {
                        // quick: a rotating third of the 56 (payload, buffer) points per message
                        if thorough || (pk + bk + ni + idx) % 3 == 0 {
                            push(Kind::HsWrite { plen, buf });
                        }
                    }
                }
                // reads
                for plen in [0usize, 1, 17, max] {
                    for pbuf in [0usize, plen.saturating_sub(1), plen, plen + 1, plen + 16, 66000] {
                        push(Kind::HsReadGenuine { plen, pbuf });
                    }
                }
                // a ladder of other lengths (powers of two and their neighbours) with exact and ample buffers
                let ladder: Vec<usize> = if thorough { (0..=300).chain([511, 512, 513, 1023, 1024, 1025, 4095, 4096, 4097, 16383, 16384, 32767, 32768, 32769, 40000]).collect() } else { vec![15, 16, 31, 32, 33, 63, 64, 65, 127, 128, 129, 240, 241, 255, 256, 257, 272, 273, 511, 512, 4096, 32768] };
                for plen in ladder {
                    if plen <= max && (thorough || (plen + ni + idx) % 3 == 0) {
                        push(Kind::HsReadGenuine { plen, pbuf: plen });
                        push(Kind::HsWrite { plen, buf: lay.overhead + plen + 16 });
                    }
                }
                let shorts: Vec<usize> = if thorough { (0..lay.overhead).collect() } else { vec![0, 1, lay.overhead / 2, lay.overhead.saturating_sub(17), lay.overhead.saturating_sub(16), lay.overhead.saturating_sub(1)] };
                for len in shorts {
                    if len < lay.overhead {
                        push(Kind::HsReadShort { len });
                        push(Kind::HsReadRaw { len });
                    }
                }
                for len in [lay.overhead, lay.overhead + 1, lay.overhead + 40, 65535, 65536, 65537, 66000] {
                    push(Kind::HsReadRaw { len });
                }
            }
        }
    }
    out
}

// transport ----------------------------------------------------------------------------------

#[derive(Clone, Debug, Serialize, Deserialize)]
pub struct TCase {
    pub spec: SessionSpec,
    pub stateless: bool,
    pub write: bool,
    pub len: usize,
    pub buf: usize,
    pub genuine: bool,
    pub r_to_i: bool,
}

fn t_oracle(c: &TCase, acc: &mut Acc) -> CaseResult {
    let spec = &c.spec;
    let pair = drive_to(spec, spec.n_msgs())?;
    let name = spec.name_string();
    let ctx = format!("{name} [{:?}] transport stateless={} write={} len={} buf={} genuine={} r_to_i={}", spec.backend_r, c.stateless, c.write, c.len, c.buf, c.genuine, c.r_to_i);
    let data = expand(spec.key_seed, 12, c.len);
    let mut out = vec![0u8; c.buf];
    let (hw, hr) = if c.r_to_i { (pair.r, pair.i) } else { (pair.i, pair.r) };
    enum E {
        T(snow::TransportState),
        S(snow::StatelessTransportState),
    }
    let conv = |h: snow::HandshakeState| -> Result<E, Fail> {
        if c.stateless {
            Ok(E::S(h.into_stateless_transport_mode().map_err(|e| Fail::setup(format!("{e:?}")))?))
        } else {
            Ok(E::T(h.into_transport_mode().map_err(|e| Fail::setup(format!("{e:?}")))?))
        }
    };
    let mut w = conv(hw)?;
    let mut r = conv(hr)?;
    if c.write {
        let res = match &mut w {
            E::T(t) => call("TransportState::write_message", || t.write_message(&data, &mut out))?,
            E::S(t) => call("StatelessTransportState::write_message", || t.write_message(0, &data, &mut out))?,
        };
        let predicted = c.len + 16;
        if let Ok(n) = res {
            ensure!(n == predicted && n <= c.buf && n <= 65535, "{ctx}: write returned {n}, predicted {predicted}");
        }
        if predicted > 65535 || predicted > c.buf {
            ensure!(res == Err(Error::Input), "{ctx}: message does not fit, expected Err(Input), got {res:?}");
            acc.label("twrite:must_fail");
        } else {
            must_succeed(&res, &ctx, &format!("fits, expected Ok({predicted})"))?;
            acc.label("twrite:must_succeed");
        }
        acc.nontrivial(&ctx);
    } else {
        let msg = if c.genuine && c.len >= 16 && c.len <= 65535 {
            match &mut w {
                E::T(t) => t_write(t, &data[..c.len - 16], c.len),
                E::S(t) => sl_write(t, 0, &data[..c.len - 16], c.len),
            }
            .map_err(|e| Fail::setup(format!("{ctx}: genuine write failed: {e:?}")))?
        } else {
            data.clone()
        };
        let res = match &mut r {
            E::T(t) => call("TransportState::read_message", || t.read_message(&msg, &mut out))?,
            E::S(t) => call("StatelessTransportState::read_message", || t.read_message(0, &msg, &mut out))?,
        };
        if let Ok(n) = res {
            ensure!(n + 16 == msg.len() && n <= c.buf, "{ctx}: read returned {n} for a {}-byte message", msg.len());
        }
        if msg.len() > 65535 || msg.len() < 16 {
            ensure!(res.is_err(), "{ctx}: message of {} bytes accepted: {res:?}", msg.len());
            acc.label("tread:len_must_fail");
            acc.nontrivial(&ctx);
        } else if c.genuine && c.buf + 16 >= msg.len() {
            must_succeed(&res, &ctx, "genuine message, adequate buffer")?;
            ensure!(out[..c.len - 16] == data[..c.len - 16], "{ctx}: payload differs");
            acc.label("tread:must_succeed");
            acc.nontrivial(&ctx);
        } else if c.genuine {
            ensure!(res.is_err(), "{ctx}: payload cannot fit the buffer but got {res:?}");
            acc.label("tread:small_buffer");
            acc.nontrivial(&ctx);
        }
    }
    Ok(())
}

fn t_cases(seed: u64, thorough: bool) -> Vec<TCase> {
    let mut out = Vec::new();
    let suites = all_suites();
    let _ = &suites;
    let mut lens = vec![0usize, 1, 15, 16, 17, 32, 100, 65518, 65519, 65520, 65534, 65535, 65536, 66000];
    // message lengths around powers of two (incl. the tag): 2^k - 1 .. 2^k + 17
    for k in [6u32, 7, 8, 9, 10, 12, 14, 15] {
        for d in [0usize, 1, 15, 16, 17] {
            lens.push((1usize << k) + d);
            lens.push((1usize << k) - 1);
        }
    }
    if thorough {
        lens.extend(200..=320);
    }
    lens.sort();
    lens.dedup();
    for (k, pat) in ["NN", "N", "XX", "K", "IK", "X"].iter().enumerate() {
        for (si, suite) in suites.iter().enumerate() {
            if !thorough && (si + k) % 6 != 0 {
                continue;
            }
            let mut spec = SessionSpec::simple(HsName { pattern: pat.to_string(), psks: vec![] }, *suite, mix(seed, 40 + k as u64));
            if ring_covers(*suite) && (si + k) % 2 == 0 {
                spec.backend_i = crate::instr::Backend::RingFirst;
                spec.backend_r = crate::instr::Backend::RingFirst;
            }
            let oneway = spec.pattern().is_oneway();
            for stateless in [false, true] {
                for write in [true, false] {
                    for &len in &lens {
                        let base_len = [0usize, 1, 15, 16, 17, 32, 100, 65518, 65519, 65520, 65534, 65535, 65536, 66000].contains(&len);
                        if !thorough && !base_len && (len + si + k) % 5 != 0 {
                            continue; // quick: the power-of-two ladder rotates over the configurations
                        }
                        let mut bufs = vec![0usize, len.saturating_sub(17), len.saturating_sub(16), len.saturating_sub(15), len.saturating_sub(1), len, len + 1, len + 15, len + 16, len + 17, 66000];
                        bufs.sort();
                        bufs.dedup();
                        for buf in bufs {
                            for genuine in [true, false] {
                                for r_to_i in [false, true] {
                                    if (write && !genuine) || (oneway && r_to_i) {
                                        continue;
                                    }
                                    out.push(TCase { spec: spec.clone(), stateless, write, len, buf, genuine, r_to_i });
                                }
                            }
                        }
                    }
                }
            }
        }
    }
    out
}

pub fn run(ctx: &Ctx) {
    let names = all_hs_names();
    let thorough = ctx.tier == Tier::Thorough;
    let cs = cases(&names, &[DhKind::X25519, DhKind::P256], thorough, ctx.seed);
    ctx.note(format!("{} handshake strings, {} handshake framing probes", names.len(), cs.len()));
    ctx.run_list("handshake_framing", &cs, true, oracle);
    let ts = t_cases(ctx.seed, thorough);
    ctx.run_list("transport_framing", &ts, true, t_oracle);
    // dense sweep: EVERY transport message length 0..=4200 (+ neighbourhoods of 8192/16384/32768 and
    // the top of the range), genuine, read into buffers with 0/1/15/16 spare bytes, on both backends
    {
        let mut dense = Vec::new();
        let suites = all_suites();
        let mut lens: Vec<usize> = (0..=ctx.tier.pick(2400usize, 12000)).collect();
        for c in [8192usize, 16384, 32768] {
            lens.extend(c - 20..=c + 20);
        }
        lens.extend(65470..=65537);
        for (li, len) in lens.iter().enumerate() {
            for (bi, backend) in [crate::instr::Backend::Default, crate::instr::Backend::RingFirst].into_iter().enumerate() {
                // a suite both backends provide, rotating cipher and hash
                let suite = *suites.iter().filter(|s| ring_covers(**s)).nth((li + bi) % 4).unwrap();
                let mut spec = SessionSpec::simple(HsName { pattern: ["NN", "N", "IK"][li % 3].to_string(), psks: vec![] }, suite, mix(ctx.seed, 77));
                spec.backend_i = backend;
                spec.backend_r = backend;
                let slack = [0usize, 1, 15, 16][(li / 3 + bi) % 4];
                dense.push(TCase { spec: spec.clone(), stateless: li % 2 == 0, write: false, len: *len, buf: len.saturating_sub(16) + slack, genuine: true, r_to_i: false });
                if li % 4 == 0 {
                    dense.push(TCase { spec, stateless: li % 8 == 0, write: true, len: len.saturating_sub(16), buf: *len + slack, genuine: true, r_to_i: false });
                }
            }
        }
        // above the dense range: every 3rd length, the four buffer relations rotating
        let top = ctx.tier.pick(2400usize, 12000);
        for (k, len) in (top + 1..65470).step_by(ctx.tier.pick(4, 3)).enumerate() {
            let backend = if k % 2 == 0 { crate::instr::Backend::RingFirst } else { crate::instr::Backend::Default };
            let suite = *suites.iter().filter(|s| ring_covers(**s)).nth((k / 2) % 4).unwrap();
            let mut spec = SessionSpec::simple(HsName { pattern: ["NN", "N", "IK"][k % 3].to_string(), psks: vec![] }, suite, mix(ctx.seed, 77));
            spec.backend_i = backend;
            spec.backend_r = backend;
            let slack = [0usize, 1, 15, 16][(k / 2) % 4];
            dense.push(TCase { spec, stateless: k % 5 == 0, write: false, len, buf: len.saturating_sub(16) + slack, genuine: true, r_to_i: false });
        }
        ctx.run_list("dense_transport_lengths", &dense, true, t_oracle);
        // the same for handshake payloads of three message shapes
        let mut hd = Vec::new();
        for plen in 0..=ctx.tier.pick(1700usize, 6000) {
            for (bi, backend) in [crate::instr::Backend::Default, crate::instr::Backend::RingFirst].into_iter().enumerate() {
                let (pat, idx) = [("NN", 1usize), ("XX", 2), ("IK", 0)][plen % 3];
                let suite = *suites.iter().filter(|s| ring_covers(**s)).nth((plen + bi) % 4).unwrap();
                let mut spec = SessionSpec::simple(HsName { pattern: pat.to_string(), psks: vec![] }, suite, mix(ctx.seed, 78));
                spec.backend_i = backend;
                spec.backend_r = backend;
                let slack = [0usize, 1, 15, 16][(plen / 3 + bi) % 4];
                hd.push(Case { spec, idx, kind: Kind::HsReadGenuine { plen, pbuf: plen + slack } });
            }
        }
        let top = ctx.tier.pick(1700usize, 6000);
        for (k, plen) in (top + 1..65400).step_by(ctx.tier.pick(8, 3)).enumerate() {
            let backend = if k % 2 == 0 { crate::instr::Backend::RingFirst } else { crate::instr::Backend::Default };
            let (pat, idx) = [("NN", 1usize), ("XX", 2), ("IK", 0)][k % 3];
            let suite = *suites.iter().filter(|s| ring_covers(**s)).nth((k / 2) % 4).unwrap();
            let mut spec = SessionSpec::simple(HsName { pattern: pat.to_string(), psks: vec![] }, suite, mix(ctx.seed, 78));
            spec.backend_i = backend;
            spec.backend_r = backend;
            let slack = [0usize, 1, 15, 16][(k / 2) % 4];
            hd.push(Case { spec, idx, kind: Kind::HsReadGenuine { plen, pbuf: plen + slack } });
        }
        ctx.run_list("dense_handshake_payloads", &hd, true, oracle);
    }
    // valid ciphertexts longer than the limit (sealed with the reference cipher)
    {
        let suites = all_suites();
        let mut over = Vec::new();
        let mut k = 0usize;
        for (si, suite) in suites.iter().enumerate() {
            if suite.dh != DhKind::X25519 || si % 4 != ctx.tier.pick(k % 4, si % 4) {
                k += 1;
                continue;
            }
            k += 1;
            for backend in [crate::instr::Backend::Default, crate::instr::Backend::RingFirst] {
                if backend == crate::instr::Backend::RingFirst && !ring_covers(*suite) {
                    continue;
                }
                for pat in ["NN", "N", "IK"] {
                    for stateless in [false, true] {
                        for r_to_i in [false, true] {
                            if r_to_i && pat == "N" {
                                continue;
                            }
                            for extra in [0usize, 1, 2, 15, 16, 17, 32, 100] {
                                let mut spec = SessionSpec::simple(HsName { pattern: pat.to_string(), psks: vec![] }, *suite, mix(ctx.seed, (si * 100 + extra) as u64));
                                spec.backend_i = backend;
                                spec.backend_r = backend;
                                let nonce = [0u64, 1, 77, 1 << 33][(extra + si) % 4];
                                for buf in [65535usize + extra, 70000, 65519] {
                                    over.push(OverCase { spec: spec.clone(), stateless, r_to_i, nonce, extra, buf });
                                }
                            }
                        }
                    }
                }
            }
        }
        ctx.run_list("oversize_valid_ciphertexts", &over, false, over_oracle);
    }
    // a DH function with 56-byte keys (the `448` choice through a custom resolver)
    {
        let mut toy = Vec::new();
        for (ni, hs) in some_hs_names(2).iter().enumerate() {
            for (k, plen) in [0usize, 1, 17, 1000].iter().enumerate() {
                toy.push(ToyCase { pattern: hs.pattern.clone(), psks: hs.psks.clone(), cipher: ni + k, hash: ni / 2 + k, plen: *plen, seed: mix(ctx.seed, 31_000 + (ni * 4 + k) as u64) });
            }
        }
        ctx.run_list("custom_dh_56_byte_keys", &toy, false, toy_oracle);
    }
    // random lengths: windows that no fixed list anticipates
    let names2 = std::sync::Arc::new(all_hs_names());
    let seed = ctx.seed;
    ctx.run_prop(
        "random_lengths",
        ctx.tier.pick(30_000, 600_000),
        || {
            let names = names2.clone();
            (any::<u16>(), 0usize..24, any::<u16>(), prop_oneof![6 => 0usize..2048, 2 => 0usize..66000], -20i64..40, any::<u64>(), 0u8..6).prop_map(move |(ni, si, mi, plen, delta, ks, kind)| {
                let suites = all_suites();
                let mut spec = SessionSpec::simple(names[crate::engine::pick(ni, names.len())].clone(), suites[si], mix(seed, ks));
                if ring_covers(suites[si]) && ks % 2 == 0 {
                    spec.backend_i = crate::instr::Backend::RingFirst;
                    spec.backend_r = crate::instr::Backend::RingFirst;
                }
                let idx = crate::engine::pick(mi, spec.n_msgs());
                let ov = spec.layouts()[idx].overhead;
                let max = 65535 - ov;
                let k = match kind {
                    0 | 1 => Kind::HsWrite { plen, buf: ((ov + plen) as i64 + delta).max(0) as usize },
                    2 | 3 => Kind::HsReadGenuine { plen: plen.min(max), pbuf: (plen.min(max) as i64 + delta.min(20)).max(0) as usize },
                    4 => Kind::HsReadShort { len: plen % ov.max(1) },
                    _ => Kind::HsReadRaw { len: plen },
                };
                Case { spec, idx, kind: k }
            })
        },
        oracle,
    );
    ctx.run_prop(
        "random_transport_lengths",
        ctx.tier.pick(30_000, 600_000),
        || {
            (0usize..6, 0usize..24, any::<bool>(), any::<bool>(), prop_oneof![6 => 0usize..2048, 2 => 0usize..66000], -20i64..40, any::<bool>(), any::<bool>(), any::<u64>()).prop_map(move |(p, si, stateless, write, len, delta, genuine, r_to_i, ks)| {
                let pats = ["NN", "N", "XX", "K", "IK", "X"];
                let suites = all_suites();
                let mut spec = SessionSpec::simple(HsName { pattern: pats[p].to_string(), psks: vec![] }, suites[si], mix(seed, ks));
                if ring_covers(suites[si]) && ks % 2 == 0 {
                    spec.backend_i = crate::instr::Backend::RingFirst;
                    spec.backend_r = crate::instr::Backend::RingFirst;
                }
                let oneway = spec.pattern().is_oneway();
                let base = if write { len + 16 } else { len.saturating_sub(16) };
                TCase { spec, stateless, write, len, buf: (base as i64 + delta).max(0) as usize, genuine: genuine || write, r_to_i: r_to_i && !oneway }
            })
        },
        t_oracle,
    );
}

/// A transport message LONGER than 65535 bytes that is a valid AEAD ciphertext under the session
/// key (sealed with the reference cipher under the reference model's Split() keys, since snow's
/// own writers refuse to produce it): every read must fail. Control: the 65535-byte message
/// sealed the same way is accepted.
#[derive(Clone, Debug, Serialize, Deserialize)]
pub struct OverCase {
    pub spec: SessionSpec,
    pub stateless: bool,
    pub r_to_i: bool,
    pub nonce: u64,
    /// message length = 65535 + extra (0 = the control)
    pub extra: usize,
    pub buf: usize,
}

fn over_oracle(c: &OverCase, acc: &mut Acc) -> CaseResult {
    use crate::refcrypto as rc;
    use crate::refnoise::RefTransport;
    let spec = &c.spec;
    let name = format!("{} [{:?}/{:?}] stateless={} {}", spec.name_string(), spec.backend_i, spec.backend_r, c.stateless, if c.r_to_i { "r->i" } else { "i->r" });
    let mut pair = build_pair(spec, None)?;
    let mut mi = build_ref(spec, true, &EpOverrides::default()).map_err(|x| Fail::setup(format!("{x:?}")))?;
    let mut mr = build_ref(spec, false, &EpOverrides::default()).map_err(|x| Fail::setup(format!("{x:?}")))?;
    for k in 0..spec.n_msgs() {
        let i_sends = k % 2 == 0;
        let (w, r, mw, mrd) = if i_sends { (&mut pair.i, &mut pair.r, &mut mi, &mut mr) } else { (&mut pair.r, &mut pair.i, &mut mr, &mut mi) };
        let m = hs_write(w, b"", 65535).map_err(|x| Fail::setup(e(&x)))?;
        hs_read(r, &m, 65535).map_err(|x| Fail::setup(e(&x)))?;
        let o = mw.write(Some(spec.e_priv(i_sends)), b"").map_err(|x| Fail::setup(format!("{x:?}")))?;
        if o.msg != m {
            return Err(Fail::setup(format!("{name}: handshake differs from the reference (C01's business); cannot derive the keys")));
        }
        mrd.read(&m).map_err(|x| Fail::setup(format!("{x:?}")))?;
    }
    let rt = RefTransport::from_hs(&mi);
    let key = if c.r_to_i { rt.k_r2i } else { rt.k_i2r };
    let total = 65535 + c.extra;
    let plain = expand(spec.key_seed, 31, total - 16);
    let msg = rc::aead_encrypt(spec.suite.cipher, &key, c.nonce, &[], &plain);
    ensure!(msg.len() == total, "harness: sealed length");
    let mut buf = vec![0u8; c.buf.max(if c.extra == 0 { total - 16 } else { 0 })];
    let reader = if c.r_to_i { pair.i } else { pair.r };
    let res = if c.stateless {
        let t = reader.into_stateless_transport_mode().map_err(|x| Fail::setup(e(&x)))?;
        t.read_message(c.nonce, &msg, &mut buf)
    } else {
        let mut t = reader.into_transport_mode().map_err(|x| Fail::setup(e(&x)))?;
        t.set_receiving_nonce(c.nonce);
        t.read_message(&msg, &mut buf)
    };
    if c.extra == 0 {
        let n = res.map_err(|x| Fail::setup(format!("{name}: control: a 65535-byte message sealed with the reference cipher under the session key is rejected ({x:?}); keys not anchored")))?;
        ensure!(buf[..n] == plain[..], "{name}: control payload differs");
        acc.label("oversize:control_65535_accepted");
    } else {
        ensure!(res.is_err(), "{name}: a transport message of {total} bytes (> 65535; a valid ciphertext under the session key, nonce {}) was read successfully into a {}-byte buffer: {res:?}", c.nonce, buf.len());
        acc.label(format!("oversize:+{}", c.extra.min(17)));
        acc.nontrivial(&(name, c.extra, c.nonce, c.buf));
    }
    Ok(())
}

/// Framing with a DH function whose keys are neither 32 nor 65 bytes long: names with the `448`
/// DH choice, served by a custom resolver (`instr::Toy448Resolver`, 56-byte keys) on both ends.
/// Lengths are predicted from the token lists with 56-byte key fields.
#[derive(Clone, Debug, Serialize, Deserialize)]
pub struct ToyCase {
    pub pattern: String,
    pub psks: Vec<u8>,
    pub cipher: usize,
    pub hash: usize,
    pub plen: usize,
    pub seed: u64,
}

fn toy_oracle(c: &ToyCase, acc: &mut Acc) -> CaseResult {
    use crate::instr::{toy448_pub, SharedRng, Toy448Resolver};
    let pat = crate::refnoise::pattern(&c.pattern).ok_or("pattern")?;
    let msgs = pat.with_psks(&c.psks).ok_or("psk set")?;
    let lay = crate::refnoise::layouts_with_len(&msgs, 56);
    let hs = HsName { pattern: c.pattern.clone(), psks: c.psks.clone() };
    let name = format!("Noise_{}_448_{}_{}", hs.string(), ["ChaChaPoly", "AESGCM"][c.cipher % 2], ["SHA256", "BLAKE2b", "SHA512", "BLAKE2s"][c.hash % 4]);
    let sk = [expand(c.seed, 1, 56), expand(c.seed, 2, 56)];
    let pk = [toy448_pub(&sk[0]), toy448_pub(&sk[1])];
    let psk = |n: u8| crate::engine::expand32(c.seed, 100 + n as u64);
    let build = |init: bool| -> Result<snow::HandshakeState, Fail> {
        let params: snow::params::NoiseParams = name.parse().map_err(|x| Fail::setup(format!("{name}: {x:?}")))?;
        let rng = SharedRng::seeded(c.seed ^ init as u64, false);
        let me = if init { 0 } else { 1 };
        let mut b = snow::Builder::with_resolver(params, Box::new(Toy448Resolver(Some(rng))));
        if pat.role_uses_static(init) {
            b = b.local_private_key(&sk[me]).map_err(|x| Fail::setup(format!("{name}: local key: {x:?}")))?;
        }
        if pat.role_needs_remote_static(init) {
            b = b.remote_public_key(&pk[1 - me]).map_err(|x| Fail::setup(format!("{name}: remote key: {x:?}")))?;
        }
        let keys: Vec<(u8, [u8; 32])> = c.psks.iter().map(|n| (*n, psk(*n))).collect();
        for (n, k) in &keys {
            b = b.psk(*n, k).map_err(|x| Fail::setup(format!("{name}: psk: {x:?}")))?;
        }
        let r = if init { b.build_initiator() } else { b.build_responder() };
        r.map_err(|x| Fail::setup(format!("{name}: build with a custom 56-byte DH: {x:?}")))
    };
    let mut hi = build(true)?;
    let mut hr = build(false)?;
    for (idx, l) in lay.iter().enumerate() {
        let (w, r) = if idx % 2 == 0 { (&mut hi, &mut hr) } else { (&mut hr, &mut hi) };
        let payload = expand(c.seed, 50 + idx as u64, c.plen);
        let predicted = l.overhead + c.plen;
        let ctx = format!("{name} message {idx} (payload {}): predicted length {predicted} (fixed overhead {} with 56-byte keys)", c.plen, l.overhead);
        // does not fit by one byte
        if predicted > 0 {
            let mut small = vec![0u8; predicted - 1];
            let res = call("HandshakeState::write_message", || w.write_message(&payload, &mut small))?;
            ensure!(res.is_err(), "{ctx}: written into a buffer of {} bytes: {res:?}", predicted - 1);
        }
        let mut buf = vec![0u8; predicted + 16];
        let res = call("HandshakeState::write_message", || w.write_message(&payload, &mut buf))?;
        must_succeed(&res, &ctx, "ample buffer")?;
        let n = res.unwrap();
        ensure!(n == predicted, "{ctx}: write returned {n}");
        let msg = buf[..n].to_vec();
        // every length below the fixed fields is refused
        let fixed = l.overhead;
        for cut in [0usize, 1, 31, 32, 33, 55, 56, 57, fixed.saturating_sub(17), fixed.saturating_sub(1)] {
            if cut < fixed && cut < msg.len() {
                let mut out = vec![0u8; 65535];
                let res = call("HandshakeState::read_message", || r.read_message(&msg[..cut], &mut out))?;
                ensure!(res.is_err(), "{ctx}: a message of {cut} bytes is shorter than the fixed fields ({fixed} bytes) but was read successfully: {res:?}");
            }
        }
        let mut out = vec![0u8; c.plen + 16];
        let res = call("HandshakeState::read_message", || r.read_message(&msg, &mut out))?;
        must_succeed(&res, &ctx, "genuine message, adequate buffer")?;
        let got = res.unwrap();
        ensure!(got == msg.len() - l.overhead, "{ctx}: read returned {got}, expected message length - overhead = {}", msg.len() - l.overhead);
        ensure!(out[..got] == payload[..], "{ctx}: payload differs");
    }
    ensure!(hi.is_handshake_finished() && hr.is_handshake_finished(), "{name}: not finished");
    if pat.remote_static_arrives_at(false).is_some() || pat.role_needs_remote_static(false) {
        ensure!(hr.get_remote_static() == Some(&pk[0][..]), "{name}: responder reports a remote static of {:?} bytes", hr.get_remote_static().map(|x| x.len()));
    }
    acc.label("custom_dh:56_byte_keys");
    acc.nontrivial(&format!("{c:?}"));
    Ok(())
}

pub fn replay(ctx: &Ctx, sub: &str, case: &serde_json::Value, origin: &str) -> bool {
    match sub {
        "custom_dh_56_byte_keys" => ctx.replay_case::<ToyCase, _>(sub, case, toy_oracle, origin),
        "oversize_valid_ciphertexts" => ctx.replay_case::<OverCase, _>(sub, case, over_oracle, origin),
        x if x.contains("transport") => ctx.replay_case::<TCase, _>(sub, case, t_oracle, origin),
        _ => ctx.replay_case::<Case, _>(sub, case, oracle, origin),
    }
}
