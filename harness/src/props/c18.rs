//! C18 Built-in primitives match their standards for all inputs (differential against the
//! independent oracles of refcrypto, with a second oracle cross-check).

use super::PropDef;
use crate::engine::{expand, expand32, mix, Acc, CaseResult, Ctx, Fail};
use crate::instr::{SharedRng, VRng};
use crate::refcrypto::{self as rc, CipherKind, DhKind, HashKind, CIPHERS, HASHES};
use crate::sess::{priv_from_seed, snow_cipher, snow_dh, snow_hash};
use proptest::prelude::*;
use serde::{Deserialize, Serialize};
use snow::resolvers::{CryptoResolver, DefaultResolver, RingResolver};

pub const DEF: PropDef = PropDef {
    id: "C18",
    run,
    replay,
    level: "exploration",
    rule: "primitive objects obtained from DefaultResolver and RingResolver are compared with independent oracles on generated inputs: (hash) digest, HMAC and Noise-HKDF for all hashes of the backend with HMAC keys 0..=block length, data 0..=3 blocks +-1 (and larger), HKDF with 1/2/3 outputs; (aead) encrypt under (key, 64-bit nonce incl. every single bit and high bytes, AD length ladder 0..=257, 1000, 4 KiB+-1, 16 KiB, 32 KiB, 65535 and random up to 9000, plaintext length ladder up to 65535 (the statement's range; larger than any Noise message allows)) equals the standard cipher with the Noise nonce encoding, decrypt inverts it for both output-buffer paths, every single-bit change of ciphertext/tag/AD/nonce/key is rejected, rekey() equals REKEY; (dh) public keys and shared secrets for scalars and points incl. RFC 7748 / RFC 5903 vectors, clamping edge bits, non-canonical and low-order X25519 points, invalid P-256 points, the object's own public key as the peer's; generate() from a seeded RNG gives pubkey == oracle_pub(privkey) and distinct keys, and so does Builder::generate_keypair (full-length public key, both backends). Oracles: ring (SHA-2, AEAD, X25519, P-256) and own RFC 7693/2104/Noise-HKDF code for the default backend; RustCrypto called directly for the ring backend; the two oracle families are cross-checked on every run. Non-trivial = every comparison on a distinct generated input",
    technique: "differential testing of primitives against independent implementations and RFC known answers (proptest + boundary enumeration)",
    assumptions: &[
        "preconditions every internal caller guarantees are respected by the generator (output buffer >= input + 16, ciphertext >= 16 bytes, HMAC key <= block length, 32-byte HKDF chaining keys of hash length)",
        "P-256 private scalars are generated inside [1, n-1] (invalid scalars are the known finding recorded under C10)",
    ],
    panic_is_violation: false,
    needs_refnoise: false,
};

#[derive(Clone, Copy, Debug, Serialize, Deserialize, PartialEq, Eq, Hash)]
pub enum Be {
    Default,
    Ring,
}

fn resolver(b: Be) -> Box<dyn CryptoResolver> {
    match b {
        Be::Default => Box::new(DefaultResolver),
        Be::Ring => Box::new(RingResolver),
    }
}

// second oracle family: RustCrypto called directly (not through snow)
pub fn rustcrypto_aead(kind: CipherKind, key: &[u8; 32], n: u64, ad: &[u8], pt: &[u8]) -> Vec<u8> {
    use aes_gcm::aead::{Aead, KeyInit, Payload};
    match kind {
        CipherKind::ChaChaPoly => {
            let mut nb = [0u8; 12];
            nb[4..].copy_from_slice(&n.to_le_bytes());
            chacha20poly1305::ChaCha20Poly1305::new(key.into()).encrypt((&nb).into(), Payload { msg: pt, aad: ad }).unwrap()
        },
        CipherKind::XChaChaPoly => {
            let mut nb = [0u8; 24];
            nb[16..].copy_from_slice(&n.to_le_bytes());
            chacha20poly1305::XChaCha20Poly1305::new(key.into()).encrypt((&nb).into(), Payload { msg: pt, aad: ad }).unwrap()
        },
        CipherKind::AesGcm => {
            let mut nb = [0u8; 12];
            nb[4..].copy_from_slice(&n.to_be_bytes());
            aes_gcm::Aes256Gcm::new(key.into()).encrypt((&nb).into(), Payload { msg: pt, aad: ad }).unwrap()
        },
    }
}

pub fn rustcrypto_hash(kind: HashKind, data: &[u8]) -> Vec<u8> {
    use sha2::Digest;
    match kind {
        HashKind::Sha256 => sha2::Sha256::digest(data).to_vec(),
        HashKind::Sha512 => sha2::Sha512::digest(data).to_vec(),
        HashKind::Blake2s => blake2::Blake2s256::digest(data).to_vec(),
        HashKind::Blake2b => blake2::Blake2b512::digest(data).to_vec(),
    }
}

pub fn rustcrypto_hkdf(kind: HashKind, ck: &[u8], ikm: &[u8], n: usize) -> Vec<Vec<u8>> {
    let hl = kind.hash_len();
    let mut okm = vec![0u8; hl * n];
    match kind {
        HashKind::Sha256 => hkdf::SimpleHkdf::<sha2::Sha256>::new(Some(ck), ikm).expand(&[], &mut okm).unwrap(),
        HashKind::Sha512 => hkdf::SimpleHkdf::<sha2::Sha512>::new(Some(ck), ikm).expand(&[], &mut okm).unwrap(),
        HashKind::Blake2s => hkdf::SimpleHkdf::<blake2::Blake2s256>::new(Some(ck), ikm).expand(&[], &mut okm).unwrap(),
        HashKind::Blake2b => hkdf::SimpleHkdf::<blake2::Blake2b512>::new(Some(ck), ikm).expand(&[], &mut okm).unwrap(),
    }
    okm.chunks(hl).map(|c| c.to_vec()).collect()
}

#[derive(Clone, Debug, Serialize, Deserialize)]
pub enum Case {
    Hash { be: Be, kind: HashKind, chunks: Vec<usize>, seed: u64 },
    Hmac { be: Be, kind: HashKind, klen: usize, dlen: usize, seed: u64 },
    Hkdf { be: Be, kind: HashKind, ikm_len: usize, outputs: usize, seed: u64 },
    Aead { be: Be, kind: CipherKind, nonce: u64, ad_len: usize, pt_len: usize, seed: u64, big_out: bool },
    AeadReject { be: Be, kind: CipherKind, nonce: u64, ad_len: usize, pt_len: usize, seed: u64, what: u8, bit: u16 },
    Rekey { be: Be, kind: CipherKind, seed: u64 },
    Dh { kind: DhKind, seed: u64, edge: u8 },
    DhGenerate { kind: DhKind, seed: u64 },
    DhVectors,
}

fn backend_has_hash(be: Be, k: HashKind) -> bool {
    be == Be::Default || matches!(k, HashKind::Sha256 | HashKind::Sha512)
}
fn backend_has_cipher(be: Be, k: CipherKind) -> bool {
    be == Be::Default || k != CipherKind::XChaChaPoly
}

fn oracle_aead(be: Be, kind: CipherKind, key: &[u8; 32], n: u64, ad: &[u8], pt: &[u8]) -> Vec<u8> {
    match be {
        Be::Default => rc::aead_encrypt(kind, key, n, ad, pt), // ring-based oracle
        Be::Ring => rustcrypto_aead(kind, key, n, ad, pt),
    }
}

fn oracle(c: &Case, acc: &mut Acc) -> CaseResult {
    match c {
        Case::Hash { be, kind, chunks, seed } => {
            if !backend_has_hash(*be, *kind) {
                acc.skip("backend does not provide this hash");
                return Ok(());
            }
            let mut h = resolver(*be).resolve_hash(&snow_hash(*kind)).ok_or("resolver lacks hash")?;
            ensure!(h.hash_len() == kind.hash_len() && h.block_len() == kind.block_len() && h.name() == kind.name(), "{be:?} {kind:?}: name/lengths");
            let mut all = Vec::new();
            // stale state must not leak through reset
            h.input(b"stale input before reset");
            h.reset();
            for (i, l) in chunks.iter().enumerate() {
                let d = expand(*seed, i as u64, *l);
                h.input(&d);
                all.extend_from_slice(&d);
            }
            let mut out = [0u8; 64];
            h.result(&mut out);
            let want = match be {
                Be::Default => kind.hash(&[&all]),
                Be::Ring => rustcrypto_hash(*kind, &all),
            };
            ensure!(out[..kind.hash_len()] == want[..], "{be:?} {kind:?}: digest of {} bytes in chunks {chunks:?} differs from the standard", all.len());
            acc.label(format!("hash:{be:?}:{}", kind.name()));
            acc.nontrivial(&format!("{c:?}"));
        },
        Case::Hmac { be, kind, klen, dlen, seed } => {
            if !backend_has_hash(*be, *kind) {
                acc.skip("backend does not provide this hash");
                return Ok(());
            }
            let mut h = resolver(*be).resolve_hash(&snow_hash(*kind)).ok_or("resolver lacks hash")?;
            let key = expand(*seed, 1, (*klen).min(kind.block_len()));
            let data = expand(*seed, 2, *dlen);
            let mut out = [0u8; 64];
            // hmac() is documented to clobber whatever state the object holds: leave some behind
            match seed % 4 {
                1 => h.input(&expand(*seed, 9, (*seed % 200) as usize)),
                2 => {
                    // an earlier HMAC with a longer key on the same object
                    let k0 = expand(*seed, 8, kind.block_len());
                    h.hmac(&k0, b"earlier", &mut out);
                },
                3 => {
                    h.input(b"x");
                    let mut t = [0u8; 64];
                    h.result(&mut t);
                    h.input(b"pending after a result");
                },
                _ => {},
            }
            h.hmac(&key, &data, &mut out);
            let want = rc::hmac(*kind, &key, &data);
            ensure!(out[..kind.hash_len()] == want[..], "{be:?} HMAC-{}: key {} bytes, data {} bytes: differs from RFC 2104", kind.name(), key.len(), data.len());
            acc.label(format!("hmac:{be:?}:{}", kind.name()));
            acc.nontrivial(&format!("{c:?}"));
        },
        Case::Hkdf { be, kind, ikm_len, outputs, seed } => {
            if !backend_has_hash(*be, *kind) {
                acc.skip("backend does not provide this hash");
                return Ok(());
            }
            let mut h = resolver(*be).resolve_hash(&snow_hash(*kind)).ok_or("resolver lacks hash")?;
            let hl = kind.hash_len();
            let ck = expand(*seed, 3, hl);
            let ikm = expand(*seed, 4, *ikm_len);
            let (mut o1, mut o2, mut o3) = ([0u8; 64], [0u8; 64], [0u8; 64]);
            if seed % 3 == 1 {
                h.input(&expand(*seed, 9, (*seed % 150) as usize)); // pending, unfinalised input
            } else if seed % 3 == 2 {
                h.hkdf(&expand(*seed, 10, hl), b"earlier ikm", 3, &mut o1, &mut o2, &mut o3);
            }
            match outputs {
                1 => h.hkdf(&ck, &ikm, 1, &mut o1, &mut [], &mut []),
                2 => h.hkdf(&ck, &ikm, 2, &mut o1, &mut o2, &mut []),
                _ => h.hkdf(&ck, &ikm, 3, &mut o1, &mut o2, &mut o3),
            }
            let want = rc::hkdf(*kind, &ck, &ikm, *outputs);
            let got = [&o1, &o2, &o3];
            for i in 0..*outputs {
                ensure!(got[i][..hl] == want[i][..], "{be:?} HKDF-{} ({} outputs, ikm {} bytes): output {} differs from the Noise HKDF definition", kind.name(), outputs, ikm_len, i + 1);
            }
            acc.label(format!("hkdf:{be:?}:{}:{}", kind.name(), outputs));
            acc.nontrivial(&format!("{c:?}"));
        },
        Case::Aead { be, kind, nonce, ad_len, pt_len, seed, big_out } => {
            if !backend_has_cipher(*be, *kind) {
                acc.skip("backend does not provide this cipher");
                return Ok(());
            }
            let mut ci = resolver(*be).resolve_cipher(&snow_cipher(*kind)).ok_or("resolver lacks cipher")?;
            ensure!(ci.name() == kind.name(), "cipher name");
            let key = expand32(*seed, 5);
            ci.set(&expand32(*seed, 55)); // an earlier key must not linger
            ci.set(&key);
            let ad = expand(*seed, 6, *ad_len);
            let pt = expand(*seed, 7, *pt_len);
            let mut out = vec![0xEEu8; pt.len() + 16 + if *big_out { 33 } else { 0 }];
            let n = ci.encrypt(*nonce, &ad, &pt, &mut out);
            ensure!(n == pt.len() + 16, "{be:?} {}: encrypt returned {n} for {} plaintext bytes", kind.name(), pt.len());
            let want = oracle_aead(*be, *kind, &key, *nonce, &ad, &pt);
            ensure!(
                out[..n] == want[..],
                "{be:?} {}: ciphertext under nonce {nonce:#x} (ad {} bytes, pt {} bytes) differs from the standard cipher with the Noise nonce encoding (first difference at byte {})",
                kind.name(),
                ad.len(),
                pt.len(),
                out[..n].iter().zip(want.iter()).position(|(a, b)| a != b).unwrap_or(0)
            );
            // decrypt inverts: exact output buffer and a buffer at least as large as the ciphertext
            for extra in [0usize, 16, 40] {
                let mut dec = vec![0x11u8; pt.len() + extra];
                let r = ci.decrypt(*nonce, &ad, &want, &mut dec);
                ensure!(r == Ok(pt.len()), "{be:?} {}: decrypt of a standard ciphertext (output buffer {} bytes) returned {r:?}", kind.name(), dec.len());
                ensure!(dec[..pt.len()] == pt[..], "{be:?} {}: decrypt returned a different plaintext", kind.name());
            }
            acc.label(format!("aead:{be:?}:{}", kind.name()));
            if *nonce >= 1 << 32 {
                acc.label("aead:nonce_high_bits");
            }
            acc.nontrivial(&format!("{c:?}"));
        },
        Case::AeadReject { be, kind, nonce, ad_len, pt_len, seed, what, bit } => {
            if !backend_has_cipher(*be, *kind) {
                acc.skip("backend does not provide this cipher");
                return Ok(());
            }
            let mut ci = resolver(*be).resolve_cipher(&snow_cipher(*kind)).ok_or("resolver lacks cipher")?;
            let mut key = expand32(*seed, 5);
            ci.set(&key);
            let mut ad = expand(*seed, 6, *ad_len);
            let pt = expand(*seed, 7, *pt_len);
            let mut ct = oracle_aead(*be, *kind, &key, *nonce, &ad, &pt);
            let mut n = *nonce;
            let b = *bit as usize;
            let desc = match what % 5 {
                0 => {
                    let i = b % (ct.len() * 8);
                    ct[i / 8] ^= 1 << (i % 8);
                    format!("ciphertext/tag bit {i}")
                },
                1 if !ad.is_empty() => {
                    let i = b % (ad.len() * 8);
                    ad[i / 8] ^= 1 << (i % 8);
                    format!("AD bit {i}")
                },
                1 => {
                    ad.push(0);
                    "AD extended by a zero byte".to_string()
                },
                2 => {
                    n ^= 1u64 << (b % 64);
                    format!("nonce bit {}", b % 64)
                },
                3 => {
                    let i = b % 256;
                    key[i / 8] ^= 1 << (i % 8);
                    ci.set(&key);
                    format!("key bit {i}")
                },
                _ => {
                    let l = b % ct.len();
                    ct.truncate(l.max(16));
                    if ct.len() == pt.len() + 16 {
                        ct.push(0);
                    }
                    "length changed".to_string()
                },
            };
            for extra in [0usize, 48] {
                let mut dec = vec![0u8; ct.len().saturating_sub(16) + extra];
                let r = ci.decrypt(n, &ad, &ct, &mut dec);
                ensure!(r.is_err(), "{be:?} {}: decrypt accepted an input with {desc} changed (returned {r:?})", kind.name());
            }
            acc.label(format!("aead_reject:{}", what % 5));
            acc.nontrivial(&format!("{c:?}"));
        },
        Case::Rekey { be, kind, seed } => {
            if !backend_has_cipher(*be, *kind) {
                acc.skip("backend does not provide this cipher");
                return Ok(());
            }
            let mut ci = resolver(*be).resolve_cipher(&snow_cipher(*kind)).ok_or("resolver lacks cipher")?;
            let key = expand32(*seed, 5);
            ci.set(&key);
            ci.rekey();
            let k2 = rc::rekey(*kind, &key);
            let mut out = vec![0u8; 5 + 16];
            ci.encrypt(3, b"ad", b"hello", &mut out);
            ensure!(out == oracle_aead(*be, *kind, &k2, 3, b"ad", b"hello"), "{be:?} {}: after rekey() the key is not REKEY(k) = ENCRYPT(k, 2^64-1, '', 0^32)[..32]", kind.name());
            ci.rekey();
            let k3 = rc::rekey(*kind, &k2);
            ci.encrypt(0, b"", b"hello", &mut out);
            ensure!(out == oracle_aead(*be, *kind, &k3, 0, b"", b"hello"), "{be:?} {}: second rekey()", kind.name());
            let ct = oracle_aead(*be, *kind, &k3, 7, b"ad", b"after rekey");
            let mut dec = [0u8; 11];
            ensure!(ci.decrypt(7, b"ad", &ct, &mut dec) == Ok(11) && &dec == b"after rekey", "{be:?} {}: decrypt after rekey()", kind.name());
            acc.label("rekey");
            acc.nontrivial(&format!("{c:?}"));
        },
        Case::Dh { kind, seed, edge } => {
            let mut d = DefaultResolver.resolve_dh(&snow_dh(*kind)).ok_or("no dh")?;
            ensure!(d.pub_len() == kind.pub_len() && d.priv_len() == 32 && d.dh_len() == 32 && d.name() == kind.name(), "dh lengths/name");
            let mut a = priv_from_seed(*kind, *seed, 1);
            let b = priv_from_seed(*kind, *seed, 2);
            if *kind == DhKind::P256 && edge % 6 == 1 {
                a[0] = 0;
                a[1] = 0; // scalar with leading zero bytes
            }
            if *kind == DhKind::P256 && edge % 6 == 2 {
                a = [0u8; 32];
                a[31] = 1 + (*seed % 200) as u8; // very small scalar
            }
            if *kind == DhKind::X25519 {
                // clamping edge bits in the private key
                match edge % 6 {
                    1 => a[0] |= 7,
                    2 => a[31] |= 0x80,
                    3 => a[31] &= 0x3f,
                    4 => a = [0xff; 32],
                    5 => a = [0; 32],
                    _ => {},
                }
            }
            d.set(&a);
            ensure!(d.privkey() == &a[..], "{kind:?}: privkey() differs from the key set");
            let want_pub = rc::dh_pub(*kind, &a).ok_or("oracle rejects scalar")?;
            ensure!(d.pubkey() == &want_pub[..], "{kind:?}: public key for private key {} differs from the standard\n snow: {}\n std:  {}", hex::encode(a), hex::encode(d.pubkey()), hex::encode(&want_pub));
            let mut peer = rc::dh_pub(*kind, &b).unwrap();
            let mut expect_err = false;
            match (*kind, edge / 6 % 6) {
                (DhKind::X25519, 1) => peer[31] |= 0x80, // high bit must be ignored
                (DhKind::X25519, 2) => {
                    // non-canonical u >= p
                    peer = vec![0xff; 32];
                    peer[0] = 0xf6; // p + 9: must behave like the base point
                    peer[31] = 0x7f;
                },
                (DhKind::X25519, 3) => peer = vec![0u8; 32], // low order
                (DhKind::X25519, 4) => {
                    peer = vec![0u8; 32];
                    peer[0] = 1;
                },
                // arbitrary 32-byte strings: about half are on the twist, most have a torsion component
                (DhKind::X25519, 5) => peer = expand(*seed, 77, 32),
                (DhKind::P256, 1) => {
                    peer[40] ^= 1; // off-curve point
                    expect_err = true;
                },
                (DhKind::P256, 2) => {
                    peer[0] = 2; // wrong encoding tag for a 65-byte string
                    expect_err = true;
                },
                (DhKind::P256, 3) => {
                    peer = vec![0u8; 65];
                    expect_err = true;
                },
                // the object's OWN public key as the peer's key (a node talking to itself; the
                // `ss` token of a session whose two parties share one identity)
                (DhKind::P256, 4) => peer = want_pub.clone(),
                (DhKind::X25519, 0) if seed % 3 == 1 => peer = want_pub.clone(),
                _ => {},
            }
            let mut out = [0u8; 65];
            let r = d.dh(&peer, &mut out);
            let want = rc::dh(*kind, &a, &peer);
            match (r, want) {
                (Ok(()), Some(w)) => ensure!(out[..32] == w[..], "{kind:?}: DH(priv {}, pub {}) differs from the standard\n snow: {}\n std:  {}", hex::encode(a), hex::encode(&peer), hex::encode(&out[..32]), hex::encode(&w)),
                (Err(_), None) => ensure!(expect_err, "{kind:?}: both reject an input that should be valid"),
                (Ok(()), None) => fail!("{kind:?}: snow accepts the public key {} which the standard implementation rejects", hex::encode(&peer)),
                (Err(_), Some(w)) if *kind == DhKind::X25519 && w.iter().all(|b| *b == 0) => {
                    // Noise rev34 12.1: an implementation may output all zeros OR signal an error for
                    // inputs that produce an all-zero output; both are accepted
                    acc.label("dh:x25519_low_order_rejected");
                },
                (Err(x), Some(_)) => fail!("{kind:?}: snow rejects the valid public key {} ({x:?})", hex::encode(&peer)),
            }
            acc.label(format!("dh:{}:edge{}", kind.name(), edge % 36));
            acc.nontrivial(&format!("{c:?}"));
        },
        Case::DhGenerate { kind, seed } => {
            let mut d1 = DefaultResolver.resolve_dh(&snow_dh(*kind)).ok_or("no dh")?;
            let mut d2 = DefaultResolver.resolve_dh(&snow_dh(*kind)).ok_or("no dh")?;
            let shared = SharedRng::seeded(*seed, *kind == DhKind::P256);
            let mut rng = VRng(shared.clone());
            if seed % 2 == 0 {
                d1.set(&priv_from_seed(*kind, *seed, 77)); // a key set earlier must not survive generate()
            }
            d1.generate(&mut rng);
            d2.generate(&mut rng);
            for d in [&d1, &d2] {
                let mut k = [0u8; 32];
                k.copy_from_slice(d.privkey());
                let want = rc::dh_pub(*kind, &k).ok_or("oracle rejects generated scalar")?;
                ensure!(d.pubkey() == &want[..], "{kind:?}: generated key pair is inconsistent (pubkey is not the public key of privkey)");
            }
            ensure!(d1.privkey() != d2.privkey() && d1.pubkey() != d2.pubkey(), "{kind:?}: two generated key pairs are equal");
            let draws = shared.draws();
            ensure!(draws.len() >= 2 && d1.privkey() == &draws[0][..], "{kind:?}: generated private key is not the bytes drawn from the RNG");
            // the two parties agree
            let (mut o1, mut o2) = ([0u8; 65], [0u8; 65]);
            d1.dh(d2.pubkey(), &mut o1).map_err(|x| Fail::setup(format!("{x:?}")))?;
            d2.dh(d1.pubkey(), &mut o2).map_err(|x| Fail::setup(format!("{x:?}")))?;
            ensure!(o1[..32] == o2[..32], "{kind:?}: DH not symmetric");
            // the library's own key-pair generation (Builder::generate_keypair, the route an
            // application takes): a full, consistent pair, distinct from call to call
            {
                let name = format!("Noise_NN_{}_ChaChaPoly_SHA256", kind.name());
                let params: snow::params::NoiseParams = name.parse().map_err(|x| Fail::setup(format!("{x:?}")))?;
                let rng2 = SharedRng::seeded(*seed ^ 0x99, *kind == DhKind::P256);
                let b = snow::Builder::with_resolver(params, Box::new(crate::instr::VResolver::new(if seed % 3 == 0 { crate::instr::Backend::RingFirst } else { crate::instr::Backend::Default }, Some(rng2), None)));
                let k1 = b.generate_keypair().map_err(|x| Fail::new(format!("{kind:?}: Builder::generate_keypair failed: {x:?}")))?;
                let k2 = b.generate_keypair().map_err(|x| Fail::new(format!("{kind:?}: Builder::generate_keypair failed: {x:?}")))?;
                for k in [&k1, &k2] {
                    ensure!(k.private.len() == 32, "{kind:?}: Builder::generate_keypair: private key of {} bytes", k.private.len());
                    let mut sk = [0u8; 32];
                    sk.copy_from_slice(&k.private);
                    let want = rc::dh_pub(*kind, &sk).ok_or("oracle rejects generated scalar")?;
                    ensure!(k.public == want, "{kind:?}: Builder::generate_keypair returns a public key ({} bytes: {}) that is not the public key of its private key ({} bytes expected)", k.public.len(), hex::encode(&k.public), want.len());
                }
                ensure!(k1.private != k2.private && k1.public != k2.public, "{kind:?}: Builder::generate_keypair returned the same pair twice");
            }
            acc.label(format!("dh_generate:{}", kind.name()));
            acc.nontrivial(&format!("{c:?}"));
        },
        Case::DhVectors => {
            // RFC 7748 section 5.2 vector 1 and 6.1
            let mut d = DefaultResolver.resolve_dh(&snow_dh(DhKind::X25519)).ok_or("no dh")?;
            let k = hex::decode("a546e36bf0527c9d3b16154b82465edd62144c0ac1fc5a18506a2244ba449ac4").unwrap();
            let u = hex::decode("e6db6867583030db3594c1a424b15f7c726624ec26b3353b10a903a6d0ab1c4c").unwrap();
            d.set(&k);
            let mut out = [0u8; 32];
            d.dh(&u, &mut out).map_err(|x| Fail::setup(format!("{x:?}")))?;
            ensure!(hex::encode(out) == "c3da55379de9c6908e94ea4df28d084f32eccf03491c71f754b4075577a28552", "RFC 7748 5.2 vector 1");
            let a = hex::decode("77076d0a7318a57d3c16c17251b26645df4c2f87ebc0992ab177fba51db92c2a").unwrap();
            d.set(&a);
            ensure!(hex::encode(d.pubkey()) == "8520f0098930a754748b7ddcb43ef75a0dbf3a0d26381af4eba4a98eaa9b4e6a", "RFC 7748 6.1 public key");
            let mut p = DefaultResolver.resolve_dh(&snow_dh(DhKind::P256)).ok_or("no dh")?;
            let i = hex::decode("C88F01F510D9AC3F70A292DAA2316DE544E9AAB8AFE84049C62A9C57862D1433").unwrap();
            p.set(&i);
            ensure!(
                hex::encode_upper(p.pubkey()) == "04DAD0B65394221CF9B051E1FECA5787D098DFE637FC90B9EF945D0C37725811805271A0461CDB8252D61F1C456FA3E59AB1F45B33ACCF5F58389E0577B8990BB3",
                "RFC 5903 8.1 public key"
            );
            let peer = hex::decode("04D12DFB5289C8D4F81208B70270398C342296970A0BCCB74C736FC7554494BF6356FBF3CA366CC23E8157854C13C58D6AAC23F046ADA30F8353E74F33039872AB").unwrap();
            let mut o = [0u8; 32];
            p.dh(&peer, &mut o).map_err(|x| Fail::setup(format!("{x:?}")))?;
            ensure!(hex::encode_upper(o) == "D6840F6B42F6EDAFD13116E0E12565202FEF8E9ECE7DCE03812464D04B9442DE", "RFC 5903 8.1 shared secret");
            acc.label("dh_rfc_vectors");
            acc.nontrivial(&"vectors");
        },
    }
    Ok(())
}

/// Cross-check of the two oracle families (exit 2 on disagreement: an oracle problem).
fn oracle_cross_check(ctx: &Ctx) {
    for (i, kind) in CIPHERS.iter().enumerate() {
        for n in [0u64, 1, 0xFFFF_FFFF, 1 << 32, 1 << 63, u64::MAX] {
            let key = expand32(n ^ 9, i as u64);
            let ad = expand(1, n, (n % 50) as usize);
            let pt = expand(2, n, (n % 300) as usize);
            if rc::aead_encrypt(*kind, &key, n, &ad, &pt) != rustcrypto_aead(*kind, &key, n, &ad, &pt) {
                ctx.inconclusive(format!("oracle cross-check failed: ring vs RustCrypto {kind:?} nonce {n}"));
            }
        }
    }
    for kind in HASHES {
        for l in [0usize, 1, 63, 64, 65, 127, 128, 129, 1000] {
            let d = expand(3, l as u64, l);
            if kind.hash(&[&d]) != rustcrypto_hash(kind, &d) {
                ctx.inconclusive(format!("oracle cross-check failed: hash {kind:?} len {l}"));
            }
            let ck = expand(4, l as u64, kind.hash_len());
            if rc::hkdf(kind, &ck, &d, 3) != rustcrypto_hkdf(kind, &ck, &d, 3) {
                ctx.inconclusive(format!("oracle cross-check failed: hkdf {kind:?} len {l}"));
            }
        }
    }
    for s in 0..20u64 {
        let a = priv_from_seed(DhKind::X25519, s, 1);
        let b = priv_from_seed(DhKind::X25519, s, 2);
        let pb = x25519_dalek::x25519(b, x25519_dalek::X25519_BASEPOINT_BYTES);
        if rc::dh_pub(DhKind::X25519, &b).unwrap() != pb.to_vec() || rc::dh(DhKind::X25519, &a, &pb).unwrap() != x25519_dalek::x25519(a, pb).to_vec() {
            ctx.inconclusive("oracle cross-check failed: ring vs x25519-dalek".to_string());
        }
    }
    ctx.note("oracle cross-check: ring vs RustCrypto (AEAD x3, hashes x4, HKDF x4, X25519) agree");
}

const LENS: [usize; 26] = [0, 1, 15, 16, 17, 31, 32, 33, 55, 56, 63, 64, 65, 111, 112, 119, 127, 128, 129, 191, 192, 193, 255, 256, 257, 1000];
const NONCES: [u64; 10] = [0, 1, 0xFF, 0x100, 0xFFFF_FFFF, 0x1_0000_0000, 0x0102_0304_0506_0708, 1 << 63, u64::MAX - 1, u64::MAX];

pub fn run(ctx: &Ctx) {
    oracle_cross_check(ctx);
    let mut cases = vec![Case::DhVectors];
    let seed = ctx.seed;
    for be in [Be::Default, Be::Ring] {
        for kind in HASHES {
            for (i, l) in LENS.iter().enumerate() {
                cases.push(Case::Hash { be, kind, chunks: vec![*l], seed: mix(seed, i as u64) });
                cases.push(Case::Hash { be, kind, chunks: vec![l / 2, l - l / 2, 0, 3], seed: mix(seed, 100 + i as u64) });
                for klen in [0usize, 1, 32, 64, kind.block_len() - 1, kind.block_len()] {
                    cases.push(Case::Hmac { be, kind, klen, dlen: *l, seed: mix(seed, (i * 10 + klen) as u64) });
                }
                for outputs in 1..=3 {
                    cases.push(Case::Hkdf { be, kind, ikm_len: *l, outputs, seed: mix(seed, (i * 3 + outputs) as u64) });
                }
            }
            cases.push(Case::Hash { be, kind, chunks: vec![65535, 1, 70000], seed });
        }
        for kind in CIPHERS {
            for (ni, nonce) in NONCES.iter().enumerate() {
                for (li, pl) in [0usize, 1, 15, 16, 17, 63, 64, 65, 255, 256, 1000, 65519].iter().enumerate() {
                    cases.push(Case::Aead { be, kind, nonce: *nonce, ad_len: [0usize, 32, 64, 13, 300][(ni + li) % 5], pt_len: *pl, seed: mix(seed, (ni * 20 + li) as u64), big_out: (ni + li) % 2 == 0 });
                }
            }
            for b in 0..64 {
                cases.push(Case::Aead { be, kind, nonce: 1u64 << b, ad_len: 32, pt_len: 20, seed: mix(seed, 500 + b), big_out: b % 2 == 0 });
            }
            // associated-data and plaintext length ladders (block / tag / page boundaries up to the
            // largest lengths the statement names), crossed sparsely with the nonce table
            for (i, l) in LENS.iter().chain([4095usize, 4096, 4097, 16383, 16384, 32768, 65519, 65520, 65534, 65535].iter()).enumerate() {
                let nonce = NONCES[i % 9];
                cases.push(Case::Aead { be, kind, nonce, ad_len: *l, pt_len: [0usize, 33][i % 2], seed: mix(seed, 700 + i as u64), big_out: i % 2 == 0 });
                cases.push(Case::Aead { be, kind, nonce, ad_len: [0usize, 64][i % 2], pt_len: *l, seed: mix(seed, 800 + i as u64), big_out: i % 2 == 1 });
                cases.push(Case::AeadReject { be, kind, nonce, ad_len: (*l).min(9000), pt_len: (*l).min(5000), seed: mix(seed, 850 + i as u64), what: (i % 5) as u8, bit: (i * 13) as u16 });
            }
            for what in 0..5u8 {
                for bit in (0..ctx.tier.pick(64u16, 400)).map(|b| b * 7 + what as u16) {
                    cases.push(Case::AeadReject { be, kind, nonce: NONCES[(bit % 9) as usize], ad_len: [0usize, 32, 64][(bit % 3) as usize], pt_len: [0usize, 1, 33, 100][(bit % 4) as usize], seed: mix(seed, bit as u64), what, bit });
                }
            }
            for s in 0..4 {
                cases.push(Case::Rekey { be, kind, seed: mix(seed, 900 + s) });
            }
        }
    }
    for kind in [DhKind::X25519, DhKind::P256] {
        for edge in 0..36u8 {
            for s in 0..ctx.tier.pick(3u64, 30) {
                cases.push(Case::Dh { kind, seed: mix(seed, 2000 + s), edge });
            }
        }
        for s in 0..ctx.tier.pick(20u64, 300) {
            cases.push(Case::DhGenerate { kind, seed: mix(seed, 3000 + s) });
        }
    }
    ctx.note(format!("{} enumerated primitive comparisons", cases.len()));
    ctx.run_list("boundary_inputs", &cases, false, oracle);
    ctx.run_prop(
        "random_inputs",
        ctx.tier.pick(300_000, 3_000_000),
        || {
            let be = prop_oneof![Just(Be::Default), Just(Be::Ring)];
            let hk = (0usize..4).prop_map(|i| HASHES[i]);
            let ck = (0usize..3).prop_map(|i| CIPHERS[i]);
            let nonce = prop_oneof![2 => any::<u64>(), 1 => (0usize..NONCES.len()).prop_map(|i| NONCES[i]), 1 => (0u32..64).prop_map(|b| 1u64 << b)];
            let len = prop_oneof![6 => 0usize..300, 2 => 0usize..5000, 1 => 65000usize..65536];
            prop_oneof![
                2 => (be.clone(), hk.clone(), prop_oneof![3 => prop::collection::vec(0usize..400, 0..5), 1 => prop::collection::vec(0usize..40, 5..60)], any::<u64>()).prop_map(|(be, kind, chunks, seed)| Case::Hash { be, kind, chunks, seed }),
                2 => (be.clone(), hk.clone(), 0usize..129, 0usize..600, any::<u64>()).prop_map(|(be, kind, klen, dlen, seed)| Case::Hmac { be, kind, klen, dlen, seed }),
                2 => (be.clone(), hk, 0usize..200, 1usize..4, any::<u64>()).prop_map(|(be, kind, ikm_len, outputs, seed)| Case::Hkdf { be, kind, ikm_len, outputs, seed }),
                4 => (be.clone(), ck.clone(), nonce.clone(), prop_oneof![8 => 0usize..300, 1 => 300usize..9000], len, any::<u64>(), any::<bool>()).prop_map(|(be, kind, nonce, ad_len, pt_len, seed, big_out)| Case::Aead { be, kind, nonce, ad_len, pt_len, seed, big_out }),
                3 => (be, ck, nonce, 0usize..100, 0usize..200, any::<u64>(), 0u8..5, any::<u16>()).prop_map(|(be, kind, nonce, ad_len, pt_len, seed, what, bit)| Case::AeadReject { be, kind, nonce, ad_len, pt_len, seed, what, bit }),
                2 => (any::<bool>(), any::<u64>(), 0u8..36).prop_map(|(p, seed, edge)| Case::Dh { kind: if p { DhKind::P256 } else { DhKind::X25519 }, seed, edge }),
                1 => (any::<bool>(), any::<u64>()).prop_map(|(p, seed)| Case::DhGenerate { kind: if p { DhKind::P256 } else { DhKind::X25519 }, seed }),
            ]
        },
        oracle,
    );
}

pub fn replay(ctx: &Ctx, sub: &str, case: &serde_json::Value, origin: &str) -> bool {
    ctx.replay_case::<Case, _>(sub, case, oracle, origin)
}
