//! C11 Handshake/transport state machine enforces turn, phase and one-way rules
//! (bounded-exhaustive model-based testing).

use super::PropDef;
use crate::engine::{expand, mix, pick, Acc, CaseResult, Ctx, Fail, Tier};
use crate::refnoise as rn;
use crate::sess::*;
use proptest::prelude::*;
use serde::{Deserialize, Serialize};
use snow::error::StateProblem as SP;
use snow::Error;

pub const DEF: PropDef = PropDef {
    id: "C11",
    run,
    replay,
    level: "exploration",
    rule: "bounded-exhaustive (suite - all three ciphers, four hashes, 25519 and P-256 - and key material rotate with the case): for every pattern (38 base; thorough: plus a psk variant each; plus, one level less deep and with a short continuation, every pattern with a psk modifier at EVERY valid position) and both roles, ALL sequences of handshake-phase calls over {write with ample buffer, write with empty buffer, read genuine next message (from a shadow peer), read stale (previous) message, read 10 bytes of garbage} up to depth #messages+1 (thorough: +2); at EVERY node of that tree both conversions (stateful, stateless) and, when they succeed, all length-2 sequences over {transport write, transport read genuine, transport read garbage, manual rekey, automatic rekey} plus transport writes that cannot fit (empty buffer, payload too long: Input in the permitted direction, the state error in the forbidden one); plus random longer sequences. Ephemerals come from the resolver's random source, which yields OTHER bytes while a call the model expects to fail is running than during valid calls (an out-of-phase call that re-draws the live ephemeral then breaks the next genuine message). Every other psk case runs the deferred-PSK workflow: the tested endpoint is built without its PSKs and set_psk() supplies each one only just before the in-phase call of the message that mixes it, so earlier out-of-phase calls meet a session whose upcoming message lacks its PSK and must still get the turn / phase error. Model: (position, role). Expected per call: success exactly when the model allows; otherwise State(NotTurnToWrite|NotTurnToRead) before completion, State(HandshakeAlreadyFinished|NotTurnTo..) after it, State(HandshakeNotFinished) for early conversion, State(OneWay) for the forbidden transport direction; after every call is_handshake_finished()==(position==#messages), is_initiator() constant, and while unfinished is_my_turn()==(initiator XOR position odd); a failed call leaves the indicators unchanged. Non-trivial = the sequence contains at least one out-of-phase call; distinct by (pattern, role, sequence)",
    technique: "bounded-exhaustive model-based testing of call sequences (every node of the call tree to the depth bound) + proptest random sequences",
    assumptions: &["where an out-of-phase call also has a malformed argument (empty buffer), either the state error or the input error is accepted: the statement fixes no precedence"],
    panic_is_violation: false,
    needs_refnoise: false,
};

pub const W_OK: u8 = 0;
pub const W_SMALL: u8 = 1;
pub const R_GENUINE: u8 = 2;
pub const R_STALE: u8 = 3;
pub const R_GARBAGE: u8 = 4;
pub const T_WRITE: u8 = 0;
pub const T_READ: u8 = 1;
pub const T_GARBAGE: u8 = 2;
/// rekey_manually(Some(k1), Some(k2)) on the endpoint under test and on the shadow peer
pub const T_REKEY_MANUAL: u8 = 3;
/// rekey_outgoing + rekey_incoming on the endpoint under test, mirrored on the shadow peer
pub const T_REKEY_AUTO: u8 = 4;
/// transport write into an EMPTY buffer: in the permitted direction an input error without
/// effect, in the forbidden direction still the state error
pub const T_WRITE_SMALL: u8 = 5;
/// transport write of a payload one byte too long for a message
pub const T_WRITE_BIG: u8 = 6;

#[derive(Clone, Debug, Serialize, Deserialize)]
pub struct Case {
    pub pattern: String,
    pub psks: Vec<u8>,
    pub initiator: bool,
    pub hs_ops: Vec<u8>,
    /// conversion attempted after the handshake ops: Some(stateless)
    pub conv: Option<bool>,
    pub t_ops: Vec<u8>,
    /// suite / key selector; None = derived from the calls (control runs pin the original's)
    #[serde(default)]
    pub hcase: Option<u64>,
}

fn is_state(r: &Result<usize, Error>, allowed: &[SP]) -> bool {
    matches!(r, Err(Error::State(s)) if allowed.contains(s))
}

/// Control for attribution: the same case without its out-of-phase calls (`hs_kept`, `t_kept` hold every call the
/// model classifies as in phase, failing ones included).
/// True if that reduced sequence fails as well - then the failure observed in
/// the full sequence is not an effect of its out-of-phase calls.
/// Which suite / key material a case runs with (a hash of its calls unless pinned).
fn case_selector(c: &Case) -> u64 {
    c.hcase.unwrap_or_else(|| c.hs_ops.iter().chain(c.t_ops.iter()).fold(c.pattern.len() as u64 * 31 + c.initiator as u64, |a, b| a.wrapping_mul(131).wrapping_add(*b as u64 + 1)))
}

fn control_fails(c: &Case, hs_kept: &[u8], t_kept: &[u8]) -> bool {
    let ctl = Case { pattern: c.pattern.clone(), psks: c.psks.clone(), initiator: c.initiator, hs_ops: hs_kept.to_vec(), conv: c.conv, t_ops: t_kept.to_vec(), hcase: Some(case_selector(c)) };
    oracle(&ctl, &mut Acc::default()).is_err()
}

fn oracle(c: &Case, acc: &mut Acc) -> CaseResult {
    let hs = HsName { pattern: c.pattern.clone(), psks: c.psks.clone() };
    let suites = all_suites();
    // the suite and the key material rotate with the case (mostly 25519 for speed, one case in
    // 16 on P-256): the state machine must not depend on them
    let hcase = case_selector(c);
    let x25519: Vec<_> = suites.iter().filter(|s| s.dh == crate::refcrypto::DhKind::X25519).collect();
    let p256: Vec<_> = suites.iter().filter(|s| s.dh == crate::refcrypto::DhKind::P256).collect();
    let suite = if hcase % 16 == 7 { *p256[(hcase / 16) as usize % p256.len()] } else { *x25519[(hcase / 16) as usize % x25519.len()] };
    let mut spec = SessionSpec::simple(hs, suite, 0xC11 + hcase % 64);
    // ephemerals come from the resolver's random source (the production path); while a call that
    // the model expects to FAIL runs, that source yields other bytes than during the valid calls,
    // so an out-of-phase call that re-draws the live ephemeral has a visible effect later
    spec.eph = EphMode::Rng;
    let pat = spec.pattern();
    let nm = pat.msgs.len();
    let oneway = pat.is_oneway();
    let mut pair = build_pair(&spec, None)?;
    // deferred-PSK workflow (every other psk case): the tested endpoint is built WITHOUT its
    // PSKs and each one is supplied with set_psk() only just before the in-phase call of the
    // message that mixes it - so the out-of-phase calls made earlier meet a session whose
    // upcoming message needs a PSK it does not have yet, and must still report the turn / phase error
    let late_psk = !c.psks.is_empty() && (hcase / 3) % 2 == 1;
    if late_psk {
        let ov = EpOverrides { omit_psks: c.psks.clone(), ..EpOverrides::default() };
        let rng = if c.initiator { pair.rng_i.clone() } else { pair.rng_r.clone() };
        let built = build_snow(&spec, c.initiator, &ov, &Instr { rng: Some(rng), log: None }).map_err(|x| Fail::setup(format!("build without PSKs {}: {x:?}", spec.name_string())))?;
        if c.initiator {
            pair.i = built;
        } else {
            pair.r = built;
        }
    }
    let e_rng = if c.initiator { pair.rng_i.clone() } else { pair.rng_r.clone() };
    let e_script = spec.e_priv(c.initiator);
    let poison = priv_from_seed(spec.suite.dh, spec.key_seed, 7777);
    let (mut e, mut p) = if c.initiator { (pair.i, pair.r) } else { (pair.r, pair.i) };
    let role = if c.initiator { "initiator" } else { "responder" };
    let who = format!("{} {role} calls {:?} conv {:?} transport {:?}", spec.name_string(), c.hs_ops, c.conv, c.t_ops);
    let mut pos = 0usize;
    let mut last_from_peer: Option<Vec<u8>> = None;
    let mut last_any: Option<Vec<u8>> = None;
    let mut out_of_phase = 0usize;
    // set once an IN-phase call with invalid arguments has failed: what happens to later valid
    // calls is then C07's business (failed calls are no-ops), not this property's
    let mut inphase_failure = false;
    // an IN-phase call with valid arguments failed: this property's business if the error is a
    // state error (the phase was misjudged) or if an out-of-phase call was made before (it was
    // supposed to have no effect); otherwise an honest step failed for unrelated reasons
    // (C02/C07's business) and the case is not judged
    let attribute = |tainted: bool, oop: usize, x: &Error, msg: String, hs_kept: &[u8], t_kept: &[u8]| {
        if tainted || (oop == 0 && !matches!(x, Error::State(_))) {
            Fail::setup(msg)
        } else if !matches!(x, Error::State(_)) && control_fails(c, hs_kept, t_kept) {
            Fail::setup(format!("{msg} (the same sequence without its out-of-phase calls fails as well: not an effect of those calls)"))
        } else {
            Fail::new(msg)
        }
    };
    let mut hs_kept: Vec<u8> = Vec::new();
    let mut t_kept: Vec<u8> = Vec::new();
    let my_turn_model = |pos: usize| pos < nm && ((pos % 2 == 0) == c.initiator);
    let check_ind = |e: &snow::HandshakeState, pos: usize, step: usize| -> CaseResult {
        ensure!(e.is_handshake_finished() == (pos == nm), "{who}: after step {step}: is_handshake_finished()={} but {pos} of {nm} messages processed", e.is_handshake_finished());
        ensure!(e.is_initiator() == c.initiator, "{who}: is_initiator() changed");
        if pos < nm {
            ensure!(e.is_my_turn() == my_turn_model(pos), "{who}: after step {step}: is_my_turn()={} but position {pos} implies {}", e.is_my_turn(), my_turn_model(pos));
        }
        Ok(())
    };
    check_ind(&e, pos, 0)?;
    for (step, op) in c.hs_ops.iter().enumerate() {
        let step = step + 1;
        let before = (e.is_my_turn(), e.is_handshake_finished(), e.get_handshake_hash().to_vec());
        let finished = pos == nm;
        let mine = my_turn_model(pos);
        let mut failed = true;
        let expected_ok = (*op == W_OK && mine) || (*op == R_GENUINE && !finished && !mine);
        e_rng.script(if expected_ok { &e_script } else { &poison });
        let in_phase = match *op {
            W_OK | W_SMALL => mine,
            _ => !finished && !mine,
        };
        if late_psk && in_phase {
            for &k in &c.psks {
                if (k as usize).saturating_sub(1) == pos {
                    e.set_psk(k as usize, &spec.psk(k)).map_err(|x| Fail::setup(format!("{who}: set_psk({k}): {x:?}")))?;
                }
            }
        }
        match *op {
            W_OK | W_SMALL => {
                let payload = spec.payload(pos, 4);
                let mut buf = vec![0u8; if *op == W_OK { 65535 } else { 0 }];
                let res = e.write_message(&payload, &mut buf);
                if mine {
                    hs_kept.push(*op);
                    if *op == W_OK {
                        let n = res.map_err(|x| attribute(inphase_failure, out_of_phase, &x, format!("{who}: step {step}: in-turn write failed: {x:?}"), &hs_kept, &[]))?;
                        let msg = buf[..n].to_vec();
                        let mut pb = vec![0u8; 65535];
                        // whether the peer accepts the bytes is C01/C02/C07's business
                        p.read_message(&msg, &mut pb).map_err(|x| Fail::setup(format!("{who}: step {step}: the peer rejects the written message: {x:?}")))?;
                        last_any = Some(msg);
                        pos += 1;
                        failed = false;
                    } else {
                        ensure!(res == Err(Error::Input), "{who}: step {step}: in-turn write into an empty buffer returned {res:?}, expected Err(Input)");
                        inphase_failure = true;
                    }
                } else {
                    out_of_phase += 1;
                    let allowed: &[SP] = if finished { &[SP::HandshakeAlreadyFinished, SP::NotTurnToWrite] } else { &[SP::NotTurnToWrite] };
                    // (the state error also when the buffer is too small as well: the call is out of phase first)
                    let ok = is_state(&res, allowed);
                    ensure!(ok, "{who}: step {step}: out-of-phase write (position {pos}/{nm}, finished={finished}) returned {res:?}, expected State({allowed:?})");
                }
            },
            R_GENUINE | R_STALE | R_GARBAGE => {
                let expecting_read = !finished && !mine;
                let msg: Vec<u8> = match *op {
                    R_GENUINE if expecting_read => {
                        let mut pb = vec![0u8; 65535];
                        let n = p.write_message(&spec.payload(pos, 4), &mut pb).map_err(|x| Fail::setup(format!("{who}: shadow peer write: {x:?}")))?;
                        pb[..n].to_vec()
                    },
                    R_GENUINE | R_STALE => last_any.clone().or(last_from_peer.clone()).unwrap_or_else(|| expand(7, 7, 10)),
                    _ => expand(9, step as u64, 10),
                };
                let mut buf = vec![0u8; 65535];
                let res = e.read_message(&msg, &mut buf);
                if expecting_read {
                    hs_kept.push(*op);
                    if *op == R_GENUINE {
                        let n = res.map_err(|x| attribute(inphase_failure, out_of_phase, &x, format!("{who}: step {step}: read of the genuine next message failed: {x:?}"), &hs_kept, &[]))?;
                        ensure!(buf[..n] == spec.payload(pos, 4)[..], "{who}: step {step}: payload differs");
                        last_from_peer = Some(msg.clone());
                        last_any = Some(msg);
                        pos += 1;
                        failed = false;
                    } else {
                        ensure!(res.is_err(), "{who}: step {step}: stale/garbage message accepted: {res:?}");
                        inphase_failure = true;
                    }
                } else {
                    out_of_phase += 1;
                    let allowed: &[SP] = if finished { &[SP::HandshakeAlreadyFinished, SP::NotTurnToRead] } else { &[SP::NotTurnToRead] };
                    ensure!(is_state(&res, allowed), "{who}: step {step}: out-of-phase read (position {pos}/{nm}, finished={finished}) returned {res:?}, expected State({allowed:?})");
                }
            },
            _ => fail!("bad op"),
        }
        if failed {
            let after = (e.is_my_turn(), e.is_handshake_finished(), e.get_handshake_hash().to_vec());
            ensure!(before == after, "{who}: step {step}: a failed call changed the session indicators: {:?} -> {:?}", (before.0, before.1), (after.0, after.1));
        }
        check_ind(&e, pos, step)?;
    }
    // conversions
    if let Some(stateless) = c.conv {
        let finished = pos == nm;
        if !finished {
            out_of_phase += 1;
            let res = if stateless { e.into_stateless_transport_mode().map(|_| ()) } else { e.into_transport_mode().map(|_| ()) };
            ensure!(res == Err(Error::State(SP::HandshakeNotFinished)), "{who}: conversion at position {pos}/{nm} returned {res:?}, expected Err(State(HandshakeNotFinished))");
        } else {
            let mut pt = p.into_transport_mode().map_err(|x| Fail::setup(format!("{who}: shadow peer conversion: {x:?}")))?;
            enum T {
                F(snow::TransportState),
                L(snow::StatelessTransportState),
            }
            let mut et = if stateless {
                T::L(e.into_stateless_transport_mode().map_err(|x| Fail::new(format!("{who}: conversion after the last message failed: {x:?}")))?)
            } else {
                T::F(e.into_transport_mode().map_err(|x| Fail::new(format!("{who}: conversion after the last message failed: {x:?}")))?)
            };
            match &et {
                T::F(t) => ensure!(t.is_initiator() == c.initiator, "{who}: is_initiator() changed by conversion"),
                T::L(t) => ensure!(t.is_initiator() == c.initiator, "{who}: is_initiator() changed by conversion"),
            }
            let can_write = !oneway || c.initiator;
            let can_read = !oneway || !c.initiator;
            let (mut nw, mut nr) = (0u64, 0u64);
            for (k, op) in c.t_ops.iter().enumerate() {
                match *op {
                    T_WRITE_SMALL | T_WRITE_BIG => {
                        let big = vec![7u8; 65535 - 16 + 1];
                        let (payload, mut buf): (&[u8], Vec<u8>) = if *op == T_WRITE_SMALL { (b"abc", vec![]) } else { (&big, vec![0u8; 70000]) };
                        let res = match &mut et {
                            T::F(t) => t.write_message(payload, &mut buf),
                            T::L(t) => t.write_message(nw, payload, &mut buf),
                        };
                        if can_write {
                            t_kept.push(*op);
                            ensure!(res == Err(Error::Input), "{who}: transport step {k}: a write that cannot fit returned {res:?}, expected Err(Input)");
                        } else {
                            out_of_phase += 1;
                            ensure!(res == Err(Error::State(SP::OneWay)), "{who}: transport step {k}: one-way responder write (with arguments that are invalid as well) returned {res:?}, expected Err(State(OneWay))");
                        }
                    },
                    T_WRITE => {
                        let mut buf = vec![0u8; 64];
                        let res = match &mut et {
                            T::F(t) => t.write_message(b"abc", &mut buf),
                            T::L(t) => t.write_message(nw, b"abc", &mut buf),
                        };
                        if can_write {
                            t_kept.push(T_WRITE);
                            let n = res.map_err(|x| attribute(false, out_of_phase, &x, format!("{who}: transport step {k}: write failed: {x:?}"), &hs_kept, &t_kept))?;
                            nw += 1;
                            let mut pb = vec![0u8; 64];
                            let l = pt.read_message(&buf[..n], &mut pb).map_err(|x| Fail::setup(format!("{who}: transport step {k}: the peer rejects the written message: {x:?}")))?;
                            ensure!(&pb[..l] == b"abc", "{who}: transport payload");
                        } else {
                            out_of_phase += 1;
                            ensure!(res == Err(Error::State(SP::OneWay)), "{who}: transport step {k}: one-way responder write returned {res:?}, expected Err(State(OneWay))");
                        }
                    },
                    T_READ | T_GARBAGE => {
                        let msg = if *op == T_READ && can_read {
                            let mut pb = vec![0u8; 64];
                            let n = pt.write_message(b"xyz", &mut pb).map_err(|x| Fail::setup(format!("{who}: shadow peer transport write: {x:?}")))?;
                            pb[..n].to_vec()
                        } else {
                            expand(11, k as u64, 40)
                        };
                        let mut buf = vec![0u8; 64];
                        let res = match &mut et {
                            T::F(t) => t.read_message(&msg, &mut buf),
                            T::L(t) => t.read_message(nr, &msg, &mut buf),
                        };
                        if can_read {
                            t_kept.push(*op);
                        }
                        if !can_read {
                            out_of_phase += 1;
                            ensure!(res == Err(Error::State(SP::OneWay)), "{who}: transport step {k}: one-way initiator read returned {res:?}, expected Err(State(OneWay))");
                        } else if *op == T_READ {
                            let n = res.map_err(|x| attribute(false, out_of_phase, &x, format!("{who}: transport step {k}: genuine message rejected: {x:?}"), &hs_kept, &t_kept))?;
                            ensure!(&buf[..n] == b"xyz", "{who}: transport payload");
                            nr += 1;
                        } else {
                            ensure!(res.is_err(), "{who}: transport step {k}: garbage accepted");
                        }
                    },
                    T_REKEY_MANUAL => {
                        t_kept.push(T_REKEY_MANUAL);
                        let (k1, k2) = ([0x11u8; 32], [0x22u8; 32]);
                        match &mut et {
                            T::F(t) => t.rekey_manually(Some(&k1), Some(&k2)),
                            T::L(t) => t.rekey_manually(Some(&k1), Some(&k2)),
                        }
                        pt.rekey_manually(Some(&k1), Some(&k2));
                    },
                    T_REKEY_AUTO => {
                        t_kept.push(T_REKEY_AUTO);
                        match &mut et {
                            T::F(t) => {
                                t.rekey_outgoing();
                                t.rekey_incoming();
                            },
                            T::L(t) => {
                                t.rekey_outgoing();
                                t.rekey_incoming();
                            },
                        }
                        pt.rekey_incoming();
                        pt.rekey_outgoing();
                    },
                    _ => fail!("bad transport op"),
                }
            }
        }
    }
    acc.label(format!("msgs:{nm}"));
    acc.label(format!("role:{role}"));
    acc.label(format!("reached_position:{pos}/{nm}"));
    acc.label(match c.conv {
        None => "conv:none",
        Some(false) => "conv:stateful",
        Some(true) => "conv:stateless",
    });
    if oneway {
        acc.label("class:one-way");
    }
    if late_psk {
        acc.label("psk:supplied late (set_psk just before the message that needs it)");
    } else if !c.psks.is_empty() {
        acc.label("psk:supplied at build time");
    }
    if out_of_phase > 0 {
        acc.nontrivial(&(c.pattern.clone(), c.psks.clone(), c.initiator, c.hs_ops.clone(), c.conv, c.t_ops.clone()));
    }
    Ok(())
}

/// Decode the `idx`-th sequence (ordered by length, then lexicographic) over `a` symbols.
fn nth_seq(mut idx: usize, a: usize) -> Vec<u8> {
    let mut len = 0;
    let mut count = 1usize;
    while idx >= count {
        idx -= count;
        len += 1;
        count *= a;
    }
    let mut ops = vec![0u8; len];
    for p in (0..len).rev() {
        ops[p] = (idx % a) as u8;
        idx /= a;
    }
    ops
}

/// can `role` write in transport mode of this pattern (false only for a one-way responder)?
fn c_role_can_write(pattern: &str, initiator: bool) -> bool {
    let oneway = rn::pattern(pattern).map_or(false, |p| p.is_oneway());
    !oneway || initiator
}

fn n_seqs_upto(depth: usize, a: usize) -> usize {
    (0..=depth).map(|l| a.pow(l as u32)).sum()
}

pub fn run(ctx: &Ctx) {
    let extra = ctx.tier.pick(1usize, 2);
    let pats = rn::all_patterns();
    // table of (pattern, psks, role, number of nodes)
    let mut blocks: Vec<(String, Vec<u8>, bool, usize, usize)> = Vec::new(); // (.., nodes, cases per node = 1 + 2 + 2*9)
    let mut variants: Vec<(String, Vec<u8>)> = pats.iter().map(|p| (p.name.clone(), vec![])).collect();
    if ctx.tier == Tier::Thorough {
        for p in &pats {
            variants.push((p.name.clone(), vec![(p.msgs.len() as u8 + p.name.len() as u8) % (p.msgs.len() as u8 + 1)]));
        }
    } else {
        // quick: a psk variant for a handful of patterns
        for (n, k) in [("NN", 0u8), ("XX", 3), ("N", 1), ("IK", 2), ("X1X1", 4)] {
            variants.push((n.to_string(), vec![k]));
        }
    }
    // model position after a handshake call sequence (to know which nodes can convert)
    let model_pos = |nm: usize, initiator: bool, ops: &[u8]| -> usize {
        let mut pos = 0usize;
        for op in ops {
            let mine = pos < nm && ((pos % 2 == 0) == initiator);
            let expecting_read = pos < nm && !mine;
            if (*op == W_OK && mine) || (*op == R_GENUINE && expecting_read) {
                pos += 1;
            }
        }
        pos
    };
    let mut cases: Vec<Case> = Vec::new();
    let mut nodes_total = 0usize;
    // every pattern with a psk modifier at EVERY valid position (a psk token changes which key is
    // live between the messages, i.e. what a stray call could disturb): all call sequences up to
    // depth #messages (quick) / #messages+1, with a short continuation instead of the full set
    for p in &pats {
        let nm = p.msgs.len();
        for k in 0..=nm as u8 {
            for role in [true, false] {
                let nodes = n_seqs_upto(nm + extra - 1, 5);
                for node in 0..nodes {
                    let hs_ops = nth_seq(node, 5);
                    let finished = model_pos(nm, role, &hs_ops) == nm;
                    let conv = if finished { Some(node % 2 == 0) } else { None };
                    cases.push(Case { pattern: p.name.clone(), psks: vec![k], initiator: role, hs_ops, conv, t_ops: if finished { vec![T_WRITE, T_READ] } else { vec![] }, hcase: None });
                }
            }
        }
    }
    for (name, psks) in &variants {
        let nm = rn::pattern(name).unwrap().msgs.len();
        for role in [true, false] {
            let nodes = n_seqs_upto(nm + extra, 5);
            nodes_total += nodes;
            for node in 0..nodes {
                let hs_ops = nth_seq(node, 5);
                let finished = model_pos(nm, role, &hs_ops) == nm;
                let mk = |conv: Option<bool>, t_ops: Vec<u8>| Case { pattern: name.clone(), psks: psks.clone(), initiator: role, hs_ops: hs_ops.clone(), conv, t_ops, hcase: None };
                if !finished {
                    // the plain sequence is a prefix of the conversion variants
                    cases.push(mk(Some(false), vec![]));
                    cases.push(mk(Some(true), vec![]));
                } else {
                    for stateless in [false, true] {
                        for extra_op in [T_WRITE_SMALL, T_WRITE_BIG] {
                            cases.push(mk(Some(stateless), vec![extra_op, T_WRITE, T_READ]));
                            cases.push(mk(Some(stateless), vec![T_READ, extra_op, T_WRITE]));
                        }
                        for t in 0..25u8 {
                            // length-2 continuations over {write, read, garbage, manual rekey, auto rekey};
                            // a rekey as second step is followed by one more write and read
                            let mut ops = vec![t / 5, t % 5];
                            if t % 5 >= 3 {
                                ops.push(if c_role_can_write(name, role) { T_WRITE } else { T_READ });
                                ops.push(if c_role_can_write(name, role) { T_READ } else { T_WRITE });
                            }
                            cases.push(mk(Some(stateless), ops));
                        }
                    }
                }
            }
        }
    }
    blocks.clear();
    ctx.note(format!(
        "{} (pattern, role) blocks, {} call-tree nodes, {} executed sequences (every node with both conversions; finished nodes with all 9 length-2 transport continuations per mode)",
        variants.len() * 2,
        nodes_total,
        cases.len()
    ));
    ctx.run_list("call_tree", &cases, true, oracle);
    let names: Vec<(String, usize)> = pats.iter().map(|p| (p.name.clone(), p.msgs.len())).collect();
    let seed = ctx.seed;
    ctx.run_prop(
        "random_sequences",
        ctx.tier.pick(20_000, 200_000),
        move || {
            let names = names.clone();
            (any::<u16>(), any::<u16>(), any::<bool>(), prop::collection::vec(prop_oneof![3 => Just(W_OK), 1 => Just(W_SMALL), 3 => Just(R_GENUINE), 1 => Just(R_STALE), 1 => Just(R_GARBAGE)], 0..14), prop_oneof![1 => Just(None), 3 => any::<bool>().prop_map(Some)], prop::collection::vec(0u8..7, 0..10))
                .prop_map(move |(pi, pk, initiator, hs_ops, conv, t_ops)| {
                    let (name, nm) = &names[pick(pi, names.len())];
                    let _ = seed;
                    let psks = if pk % 3 == 0 { vec![(pk / 3) as u8 % (*nm as u8 + 1)] } else { vec![] };
                    Case { pattern: name.clone(), psks, initiator, hs_ops, conv, t_ops, hcase: None }
                })
        },
        oracle,
    );
    let _ = mix(0, 0);
}

pub fn replay(ctx: &Ctx, sub: &str, case: &serde_json::Value, origin: &str) -> bool {
    ctx.replay_case::<Case, _>(sub, case, oracle, origin)
}
