//! Instrumented CryptoResolvers (public API only): scripted / seeded RNG, recording cipher and
//! DH wrappers, lacking and marker resolvers (DESIGN.md 2.3).

use snow::params::{CipherChoice, DHChoice, HashChoice};
use snow::resolvers::{BoxedCryptoResolver, CryptoResolver, DefaultResolver, FallbackResolver, RingResolver};
use snow::types::{Cipher, Dh, Hash, Random};
use std::sync::{Arc, Mutex};

use crate::engine::{mix, splitmix};
use serde::{Deserialize, Serialize};

#[derive(Clone, Copy, Debug, PartialEq, Eq, Hash, Serialize, Deserialize, PartialOrd, Ord)]
pub enum Backend {
    /// DefaultResolver only
    Default,
    /// FallbackResolver(Ring, Default): ring ciphers/hashes where available
    RingFirst,
    /// FallbackResolver(Default, Ring)
    DefaultFirst,
    /// default primitives, ciphers behind a pass-through wrapper that does NOT override
    /// `Cipher::rekey` (what an application's metrics / HSM wrapper looks like): rekeys run the
    /// trait's provided method
    PassThrough,
    /// default primitives, ciphers behind a wrapper that DOES override `Cipher::rekey` with its
    /// own derivation (allowed by the specification, section 4.2)
    OwnRekey,
}

pub const BACKENDS: [Backend; 3] = [Backend::Default, Backend::RingFirst, Backend::DefaultFirst];

pub fn backend_resolver(b: Backend) -> BoxedCryptoResolver {
    match b {
        Backend::Default => Box::new(DefaultResolver),
        Backend::RingFirst => Box::new(FallbackResolver::new(Box::new(RingResolver), Box::new(DefaultResolver))),
        Backend::DefaultFirst => Box::new(FallbackResolver::new(Box::new(DefaultResolver), Box::new(RingResolver))),
        Backend::PassThrough => Box::new(WrapResolver { own_rekey: false }),
        Backend::OwnRekey => Box::new(WrapResolver { own_rekey: true }),
    }
}

/// DefaultResolver whose ciphers sit behind `WrapCipher`.
pub struct WrapResolver {
    pub own_rekey: bool,
}

pub struct WrapCipher {
    inner: Box<dyn Cipher>,
    key: [u8; 32],
    own_rekey: bool,
}

impl Cipher for WrapCipher {
    fn name(&self) -> &'static str {
        self.inner.name()
    }
    fn set(&mut self, key: &[u8; 32]) {
        self.key = *key;
        self.inner.set(key);
    }
    fn encrypt(&self, nonce: u64, authtext: &[u8], plaintext: &[u8], out: &mut [u8]) -> usize {
        self.inner.encrypt(nonce, authtext, plaintext, out)
    }
    fn decrypt(&self, nonce: u64, authtext: &[u8], ciphertext: &[u8], out: &mut [u8]) -> Result<usize, snow::Error> {
        self.inner.decrypt(nonce, authtext, ciphertext, out)
    }
    fn rekey(&mut self) {
        if self.own_rekey {
            // this cipher's own REKEY: the specification's default value with the first byte
            // complemented (any function of the key would do; what matters is that every
            // session object asks the CIPHER for it)
            let mut out = [0u8; 48];
            self.inner.encrypt(u64::MAX, &[], &[0u8; 32], &mut out);
            let mut k = [0u8; 32];
            k.copy_from_slice(&out[..32]);
            k[0] ^= 0xff;
            self.set(&k);
        } else {
            // what the trait's provided method does: written out here because a provided
            // method cannot be called once overridden - so the pass-through variant uses
            // `PassCipher` below instead, which does not override it
            unreachable!()
        }
    }
}

/// Pass-through wrapper WITHOUT a `rekey` override.
pub struct PassCipher(Box<dyn Cipher>);
impl Cipher for PassCipher {
    fn name(&self) -> &'static str {
        self.0.name()
    }
    fn set(&mut self, key: &[u8; 32]) {
        self.0.set(key);
    }
    fn encrypt(&self, nonce: u64, authtext: &[u8], plaintext: &[u8], out: &mut [u8]) -> usize {
        self.0.encrypt(nonce, authtext, plaintext, out)
    }
    fn decrypt(&self, nonce: u64, authtext: &[u8], ciphertext: &[u8], out: &mut [u8]) -> Result<usize, snow::Error> {
        self.0.decrypt(nonce, authtext, ciphertext, out)
    }
}

impl CryptoResolver for WrapResolver {
    fn resolve_rng(&self) -> Option<Box<dyn Random>> {
        DefaultResolver.resolve_rng()
    }
    fn resolve_dh(&self, c: &DHChoice) -> Option<Box<dyn Dh>> {
        DefaultResolver.resolve_dh(c)
    }
    fn resolve_hash(&self, c: &HashChoice) -> Option<Box<dyn Hash>> {
        DefaultResolver.resolve_hash(c)
    }
    fn resolve_cipher(&self, c: &CipherChoice) -> Option<Box<dyn Cipher>> {
        let inner = DefaultResolver.resolve_cipher(c)?;
        if self.own_rekey {
            Some(Box::new(WrapCipher { inner, key: [0u8; 32], own_rekey: true }))
        } else {
            Some(Box::new(PassCipher(inner)))
        }
    }
}

// ---------------------------------------------------------------------------------------------
// RNG

#[derive(Default)]
pub struct RngState {
    /// bytes handed out by the next draws (cycled) when scripted
    pub script: Option<Vec<u8>>,
    /// counter stream state when seeded
    pub stream: u64,
    pub seed: u64,
    /// make every 32-byte draw a valid P-256 scalar (top bit cleared, non-zero)
    pub p256_safe: bool,
    /// draw from the operating system's RNG (and still log the draws)
    pub os: bool,
    /// log of draws: (draw index, bytes)
    pub draws: Vec<Vec<u8>>,
}

#[derive(Clone)]
pub struct SharedRng(pub Arc<Mutex<RngState>>);

impl SharedRng {
    pub fn seeded(seed: u64, p256_safe: bool) -> SharedRng {
        SharedRng(Arc::new(Mutex::new(RngState { seed, p256_safe, ..Default::default() })))
    }
    /// Real OS randomness, recorded.
    pub fn os() -> SharedRng {
        SharedRng(Arc::new(Mutex::new(RngState { os: true, ..Default::default() })))
    }
    /// The next draws return `bytes` (repeated/truncated to the requested length).
    pub fn script(&self, bytes: &[u8]) {
        self.0.lock().unwrap().script = Some(bytes.to_vec());
    }
    pub fn draws(&self) -> Vec<Vec<u8>> {
        self.0.lock().unwrap().draws.clone()
    }
    pub fn draw_count(&self) -> usize {
        self.0.lock().unwrap().draws.len()
    }
}

pub struct VRng(pub SharedRng);

impl rand_core::RngCore for VRng {
    fn next_u32(&mut self) -> u32 {
        let mut b = [0u8; 4];
        self.fill_bytes(&mut b);
        u32::from_le_bytes(b)
    }
    fn next_u64(&mut self) -> u64 {
        let mut b = [0u8; 8];
        self.fill_bytes(&mut b);
        u64::from_le_bytes(b)
    }
    fn fill_bytes(&mut self, dest: &mut [u8]) {
        let mut st = self.0 .0.lock().unwrap();
        if st.os {
            rand_core::OsRng.fill_bytes(dest);
        } else if let Some(s) = &st.script {
            if !s.is_empty() {
                for (i, d) in dest.iter_mut().enumerate() {
                    *d = s[i % s.len()];
                }
            }
        } else {
            let mut x = mix(st.seed, st.stream);
            st.stream += 1;
            for chunk in dest.chunks_mut(8) {
                x = splitmix(x);
                let b = x.to_le_bytes();
                chunk.copy_from_slice(&b[..chunk.len()]);
            }
            if st.p256_safe && dest.len() == 32 {
                dest[0] &= 0x7f;
                dest[31] |= 1;
            }
        }
        st.draws.push(dest.to_vec());
    }
    fn try_fill_bytes(&mut self, dest: &mut [u8]) -> Result<(), rand_core::Error> {
        self.fill_bytes(dest);
        Ok(())
    }
}
impl rand_core::CryptoRng for VRng {}
impl Random for VRng {}

// ---------------------------------------------------------------------------------------------
// Recording log

#[derive(Clone, Debug, PartialEq, Eq)]
pub enum Ev {
    CipherSet { id: usize, key: [u8; 32] },
    Enc { id: usize, key: Option<[u8; 32]>, nonce: u64, ad: Vec<u8>, pt: Vec<u8>, out_len: usize },
    Dec { id: usize, key: Option<[u8; 32]>, nonce: u64, ad: Vec<u8>, ct_len: usize, ok: bool },
    RekeyBegin { id: usize },
    RekeyEnd { id: usize },
    DhGenerate { id: usize, pubkey: Vec<u8>, privkey: Vec<u8> },
    DhSet { id: usize },
    DhDh { id: usize },
    /// marker inserted by the driver
    Mark(String),
}

#[derive(Clone, Default)]
pub struct Log(pub Arc<Mutex<LogInner>>);

#[derive(Default)]
pub struct LogInner {
    pub events: Vec<Ev>,
    pub next_id: usize,
}

impl Log {
    pub fn push(&self, e: Ev) {
        self.0.lock().unwrap().events.push(e);
    }
    pub fn mark(&self, s: impl Into<String>) {
        self.push(Ev::Mark(s.into()));
    }
    pub fn fresh_id(&self) -> usize {
        let mut l = self.0.lock().unwrap();
        l.next_id += 1;
        l.next_id
    }
    pub fn events(&self) -> Vec<Ev> {
        self.0.lock().unwrap().events.clone()
    }
    pub fn len(&self) -> usize {
        self.0.lock().unwrap().events.len()
    }
}

pub struct RecCipher {
    inner: Box<dyn Cipher>,
    id: usize,
    key: Mutex<Option<[u8; 32]>>,
    log: Log,
}

impl Cipher for RecCipher {
    fn name(&self) -> &'static str {
        self.inner.name()
    }
    fn set(&mut self, key: &[u8; 32]) {
        *self.key.lock().unwrap() = Some(*key);
        self.log.push(Ev::CipherSet { id: self.id, key: *key });
        self.inner.set(key);
    }
    fn encrypt(&self, nonce: u64, authtext: &[u8], plaintext: &[u8], out: &mut [u8]) -> usize {
        let n = self.inner.encrypt(nonce, authtext, plaintext, out);
        self.log.push(Ev::Enc {
            id: self.id,
            key: *self.key.lock().unwrap(),
            nonce,
            ad: authtext.to_vec(),
            pt: plaintext.to_vec(),
            out_len: n,
        });
        n
    }
    fn decrypt(&self, nonce: u64, authtext: &[u8], ciphertext: &[u8], out: &mut [u8]) -> Result<usize, snow::Error> {
        let r = self.inner.decrypt(nonce, authtext, ciphertext, out);
        self.log.push(Ev::Dec {
            id: self.id,
            key: *self.key.lock().unwrap(),
            nonce,
            ad: authtext.to_vec(),
            ct_len: ciphertext.len(),
            ok: r.is_ok(),
        });
        r
    }
    // `rekey` is deliberately NOT overridden: the trait's default algorithm (snow's own code in
    // src/types.rs) then runs through this wrapper's logged `encrypt` and `set`, so the rekey
    // encryption is part of the recorded history and the wrapper keeps knowing the key. (A
    // backend-specific override of `rekey` would be bypassed; C15/C18 test the unwrapped objects.)
}

/// Is this logged encryption the REKEY operation of the specification (32 zero bytes, empty ad)?
pub fn is_rekey_shape(ev: &Ev) -> bool {
    matches!(ev, Ev::Enc { ad, pt, .. } if ad.is_empty() && pt.len() == 32 && pt.iter().all(|b| *b == 0))
}

pub struct RecDh {
    inner: Box<dyn Dh>,
    id: usize,
    log: Log,
}

impl Dh for RecDh {
    fn name(&self) -> &'static str {
        self.inner.name()
    }
    fn pub_len(&self) -> usize {
        self.inner.pub_len()
    }
    fn priv_len(&self) -> usize {
        self.inner.priv_len()
    }
    fn set(&mut self, privkey: &[u8]) {
        self.log.push(Ev::DhSet { id: self.id });
        self.inner.set(privkey)
    }
    fn generate(&mut self, rng: &mut dyn Random) {
        self.inner.generate(rng);
        self.log.push(Ev::DhGenerate {
            id: self.id,
            pubkey: self.inner.pubkey().to_vec(),
            privkey: self.inner.privkey().to_vec(),
        });
    }
    fn pubkey(&self) -> &[u8] {
        self.inner.pubkey()
    }
    fn privkey(&self) -> &[u8] {
        self.inner.privkey()
    }
    fn dh(&self, pubkey: &[u8], out: &mut [u8]) -> Result<(), snow::Error> {
        self.log.push(Ev::DhDh { id: self.id });
        self.inner.dh(pubkey, out)
    }
    fn dh_len(&self) -> usize {
        self.inner.dh_len()
    }
}

/// Resolver used by the harness: chooses a backend, optionally replaces the RNG and
/// optionally records cipher / DH traffic.
pub struct VResolver {
    pub inner: BoxedCryptoResolver,
    pub rng: Option<SharedRng>,
    pub log: Option<Log>,
}

impl VResolver {
    pub fn new(b: Backend, rng: Option<SharedRng>, log: Option<Log>) -> VResolver {
        VResolver { inner: backend_resolver(b), rng, log }
    }
}

impl CryptoResolver for VResolver {
    fn resolve_rng(&self) -> Option<Box<dyn Random>> {
        match &self.rng {
            Some(r) => Some(Box::new(VRng(r.clone()))),
            None => self.inner.resolve_rng(),
        }
    }
    fn resolve_dh(&self, choice: &DHChoice) -> Option<Box<dyn Dh>> {
        let d = self.inner.resolve_dh(choice)?;
        match &self.log {
            Some(l) => Some(Box::new(RecDh { inner: d, id: l.fresh_id(), log: l.clone() })),
            None => Some(d),
        }
    }
    fn resolve_hash(&self, choice: &HashChoice) -> Option<Box<dyn Hash>> {
        self.inner.resolve_hash(choice)
    }
    fn resolve_cipher(&self, choice: &CipherChoice) -> Option<Box<dyn Cipher>> {
        let c = self.inner.resolve_cipher(choice)?;
        match &self.log {
            Some(l) => Some(Box::new(RecCipher {
                inner: c,
                id: l.fresh_id(),
                key: Mutex::new(None),
                log: l.clone(),
            })),
            None => Some(c),
        }
    }
    #[cfg(feature = "hfs")]
    fn resolve_kem(&self, choice: &snow::params::KemChoice) -> Option<Box<dyn snow::types::Kem>> {
        self.inner.resolve_kem(choice)
    }
}

// ---------------------------------------------------------------------------------------------
// Lacking / marker resolvers for C12 and C20

#[derive(Clone, Copy, Debug, PartialEq, Eq, Hash, Serialize, Deserialize)]
pub enum PrimKind {
    Rng,
    Dh,
    Hash,
    Cipher,
}
pub const PRIM_KINDS: [PrimKind; 4] = [PrimKind::Rng, PrimKind::Dh, PrimKind::Hash, PrimKind::Cipher];

/// A resolver that provides only the primitive kinds in `provides` (from DefaultResolver) and
/// tags what it hands out so the caller can tell which member of a fallback pair answered.
pub struct PartialResolver {
    pub provides: [bool; 4], // rng, dh, hash, cipher
    pub tag: &'static str,
}

pub struct TagDh(Box<dyn Dh>, &'static str);
impl Dh for TagDh {
    fn name(&self) -> &'static str {
        self.1
    }
    fn pub_len(&self) -> usize {
        self.0.pub_len()
    }
    fn priv_len(&self) -> usize {
        self.0.priv_len()
    }
    fn set(&mut self, p: &[u8]) {
        self.0.set(p)
    }
    fn generate(&mut self, r: &mut dyn Random) {
        self.0.generate(r)
    }
    fn pubkey(&self) -> &[u8] {
        self.0.pubkey()
    }
    fn privkey(&self) -> &[u8] {
        self.0.privkey()
    }
    fn dh(&self, p: &[u8], o: &mut [u8]) -> Result<(), snow::Error> {
        self.0.dh(p, o)
    }
    fn dh_len(&self) -> usize {
        self.0.dh_len()
    }
}
pub struct TagHash(Box<dyn Hash>, &'static str);
impl Hash for TagHash {
    fn name(&self) -> &'static str {
        self.1
    }
    fn block_len(&self) -> usize {
        self.0.block_len()
    }
    fn hash_len(&self) -> usize {
        self.0.hash_len()
    }
    fn reset(&mut self) {
        self.0.reset()
    }
    fn input(&mut self, d: &[u8]) {
        self.0.input(d)
    }
    fn result(&mut self, o: &mut [u8]) {
        self.0.result(o)
    }
}
pub struct TagCipher(Box<dyn Cipher>, &'static str);
impl Cipher for TagCipher {
    fn name(&self) -> &'static str {
        self.1
    }
    fn set(&mut self, k: &[u8; 32]) {
        self.0.set(k)
    }
    fn encrypt(&self, n: u64, a: &[u8], p: &[u8], o: &mut [u8]) -> usize {
        self.0.encrypt(n, a, p, o)
    }
    fn decrypt(&self, n: u64, a: &[u8], c: &[u8], o: &mut [u8]) -> Result<usize, snow::Error> {
        self.0.decrypt(n, a, c, o)
    }
}
/// An RNG whose first byte of every draw is the tag's first byte (so the winner is observable).
pub struct TagRng(pub u8);
impl rand_core::RngCore for TagRng {
    fn next_u32(&mut self) -> u32 {
        u32::from(self.0)
    }
    fn next_u64(&mut self) -> u64 {
        u64::from(self.0)
    }
    fn fill_bytes(&mut self, d: &mut [u8]) {
        for b in d.iter_mut() {
            *b = self.0;
        }
    }
    fn try_fill_bytes(&mut self, d: &mut [u8]) -> Result<(), rand_core::Error> {
        self.fill_bytes(d);
        Ok(())
    }
}
impl rand_core::CryptoRng for TagRng {}
impl Random for TagRng {}

impl CryptoResolver for PartialResolver {
    fn resolve_rng(&self) -> Option<Box<dyn Random>> {
        if self.provides[0] {
            Some(Box::new(TagRng(self.tag.as_bytes()[0])))
        } else {
            None
        }
    }
    fn resolve_dh(&self, c: &DHChoice) -> Option<Box<dyn Dh>> {
        if self.provides[1] {
            Some(Box::new(TagDh(DefaultResolver.resolve_dh(c)?, self.tag)))
        } else {
            None
        }
    }
    fn resolve_hash(&self, c: &HashChoice) -> Option<Box<dyn Hash>> {
        if self.provides[2] {
            Some(Box::new(TagHash(DefaultResolver.resolve_hash(c)?, self.tag)))
        } else {
            None
        }
    }
    fn resolve_cipher(&self, c: &CipherChoice) -> Option<Box<dyn Cipher>> {
        if self.provides[3] {
            Some(Box::new(TagCipher(DefaultResolver.resolve_cipher(c)?, self.tag)))
        } else {
            None
        }
    }
}


// ---------------------------------------------------------------------------------------------
// A DH function with 56-byte keys for names with the `448` DH choice, which no built-in resolver
// implements (the documented route for it is a custom resolver). It is NOT X448: public key =
// X25519 public key of the first 32 private bytes followed by 24 derived bytes, shared secret
// likewise - a consistent toy function that is good enough to exercise FRAMING with a key
// length other than 32 and 65.
pub struct Toy448 {
    privkey: [u8; 56],
    pubkey: [u8; 56],
}

impl Toy448 {
    fn derive(&mut self) {
        let mut sk = [0u8; 32];
        sk.copy_from_slice(&self.privkey[..32]);
        let pk = x25519_dalek::x25519(sk, x25519_dalek::X25519_BASEPOINT_BYTES);
        self.pubkey[..32].copy_from_slice(&pk);
        for i in 0..24 {
            self.pubkey[32 + i] = pk[i] ^ 0x5a;
        }
    }
}

impl Dh for Toy448 {
    fn name(&self) -> &'static str {
        "448"
    }
    fn pub_len(&self) -> usize {
        56
    }
    fn priv_len(&self) -> usize {
        56
    }
    fn set(&mut self, privkey: &[u8]) {
        let n = privkey.len().min(56);
        self.privkey = [0u8; 56];
        self.privkey[..n].copy_from_slice(&privkey[..n]);
        self.derive();
    }
    fn generate(&mut self, rng: &mut dyn Random) {
        rng.fill_bytes(&mut self.privkey);
        self.derive();
    }
    fn pubkey(&self) -> &[u8] {
        &self.pubkey
    }
    fn privkey(&self) -> &[u8] {
        &self.privkey
    }
    fn dh(&self, pubkey: &[u8], out: &mut [u8]) -> Result<(), snow::Error> {
        if pubkey.len() < 56 || out.len() < 56 {
            return Err(snow::Error::Dh);
        }
        // the derived tail is part of the key: a truncated or padded key is not the same key
        for i in 0..24 {
            if pubkey[32 + i] != pubkey[i] ^ 0x5a {
                return Err(snow::Error::Dh);
            }
        }
        let mut sk = [0u8; 32];
        sk.copy_from_slice(&self.privkey[..32]);
        let mut pk = [0u8; 32];
        pk.copy_from_slice(&pubkey[..32]);
        let shared = x25519_dalek::x25519(sk, pk);
        out[..32].copy_from_slice(&shared);
        for i in 0..24 {
            out[32 + i] = shared[i] ^ 0xa5;
        }
        Ok(())
    }
}

/// Public key of a `Toy448` private key.
pub fn toy448_pub(privkey: &[u8]) -> Vec<u8> {
    let mut t = Toy448 { privkey: [0u8; 56], pubkey: [0u8; 56] };
    t.set(privkey);
    t.pubkey.to_vec()
}

/// DefaultResolver plus `Toy448` for the 448 choice.
pub struct Toy448Resolver(pub Option<SharedRng>);

impl CryptoResolver for Toy448Resolver {
    fn resolve_rng(&self) -> Option<Box<dyn Random>> {
        match &self.0 {
            Some(r) => Some(Box::new(VRng(r.clone()))),
            None => DefaultResolver.resolve_rng(),
        }
    }
    fn resolve_dh(&self, c: &DHChoice) -> Option<Box<dyn Dh>> {
        match c {
            DHChoice::Curve448 => Some(Box::new(Toy448 { privkey: [0u8; 56], pubkey: [0u8; 56] })),
            _ => DefaultResolver.resolve_dh(c),
        }
    }
    fn resolve_hash(&self, c: &HashChoice) -> Option<Box<dyn Hash>> {
        DefaultResolver.resolve_hash(c)
    }
    fn resolve_cipher(&self, c: &CipherChoice) -> Option<Box<dyn Cipher>> {
        DefaultResolver.resolve_cipher(c)
    }
}
