//! snowverif: property-based / fuzzing checks for the 20 listed properties of mcginty/snow.
//! Usage: snowverif <Cnn> <quick|thorough> [--sub NAME] | snowverif <Cnn> --replay FILE

use snowverif::engine::{self, Acc, Ctx, KnownFile, Tier};
use snowverif::{props, refcrypto, refnoise};
use std::path::PathBuf;
use std::sync::Mutex;
use std::time::Instant;

fn verif_dir() -> PathBuf {
    if let Ok(d) = std::env::var("VERIF_DIR") {
        return PathBuf::from(d);
    }
    // harness/target/release/snowverif -> /verif
    let exe = std::env::current_exe().unwrap_or_default();
    let mut p = exe.clone();
    for _ in 0..4 {
        p.pop();
    }
    if p.join("properties.jsonl").exists() {
        return p;
    }
    PathBuf::from("/verif")
}

fn main() {
    let args: Vec<String> = std::env::args().collect();
    if args.len() < 3 {
        eprintln!("usage: snowverif <Cnn> <quick|thorough> [--sub NAME] | snowverif <Cnn> --replay FILE");
        std::process::exit(2);
    }
    let prop_arg = args[1].to_uppercase();
    let Some(pd) = props::ALL.iter().find(|p| p.id == prop_arg) else {
        eprintln!("unknown property {prop_arg}");
        std::process::exit(2);
    };
    let mut tier = Tier::Quick;
    let mut replay: Option<String> = None;
    let mut only_sub = None;
    let mut i = 2;
    while i < args.len() {
        match args[i].as_str() {
            "quick" => tier = Tier::Quick,
            "thorough" => tier = Tier::Thorough,
            "--replay" => {
                i += 1;
                replay = args.get(i).cloned();
            },
            "--sub" => {
                i += 1;
                only_sub = args.get(i).cloned();
            },
            x => {
                eprintln!("unknown argument {x}");
                std::process::exit(2);
            },
        }
        i += 1;
    }
    let seed: u64 = std::env::var("VERIF_SEED").ok().and_then(|s| s.trim().parse::<i128>().ok()).map(|v| v as u64).unwrap_or(1);
    let vdir = verif_dir();
    // the library reads golden files relative to this directory
    std::env::set_var("VERIF_DIR", &vdir);
    let known: KnownFile = std::fs::read_to_string(vdir.join("known_findings.json"))
        .ok()
        .and_then(|t| serde_json::from_str(&t).ok())
        .unwrap_or_default();
    engine::install_panic_hook();
    let ctx = Ctx {
        prop: pd.id,
        tier,
        seed,
        verif_dir: vdir.clone(),
        start: Instant::now(),
        known: known.known.clone(),
        panic_is_violation: pd.panic_is_violation,
        total: Mutex::new(Acc::default()),
        subs: Mutex::new(vec![]),
        violations: Mutex::new(vec![]),
        inconclusive: Mutex::new(vec![]),
        notes: Mutex::new(vec![]),
        only_sub,
        setup_failures: Mutex::new(0),
    };

    // oracle self-tests: a broken oracle never accuses the code
    let golden = vdir.join("golden");
    match refcrypto::self_test(&golden) {
        Ok(n) => ctx.note(format!("refcrypto self-test: {n} known answers ok")),
        Err(e) => {
            println!("INCONCLUSIVE property={} oracle self-test failed (refcrypto): {e}", pd.id);
            std::process::exit(2);
        },
    }
    if pd.needs_refnoise {
        match refnoise::self_test(&golden) {
            Ok((v, m)) => ctx.note(format!("refnoise self-test: {v} cacophony vectors / {m} messages reproduced by the model alone")),
            Err(e) => {
                println!("INCONCLUSIVE property={} oracle self-test failed (refnoise vs cacophony): {e}", pd.id);
                std::process::exit(2);
            },
        }
    }

    if let Some(path) = replay {
        let ok = replay_file(&ctx, pd, &path);
        let bad = !ctx.inconclusive.lock().unwrap().is_empty();
        std::process::exit(if !ok { 1 } else if bad { 2 } else { 0 });
    }

    // replay tier: committed regression cases first
    let rdir = vdir.join("replays").join(pd.id);
    if ctx.only_sub.is_none() {
        if let Ok(rd) = std::fs::read_dir(&rdir) {
            let mut files: Vec<_> = rd.filter_map(|e| e.ok()).map(|e| e.path()).filter(|p| p.extension().map_or(false, |x| x == "json")).collect();
            files.sort();
            for f in files {
                replay_file(&ctx, pd, &f.to_string_lossy());
            }
        }
    }

    (pd.run)(&ctx);

    // known findings: one line per listed finding that this run re-confirmed
    let tot = ctx.total.lock().unwrap();
    for k in ctx.known.iter().filter(|k| k.property == pd.id) {
        let hits = tot.known_hits.get(&k.signature).copied().unwrap_or(0);
        if hits > 0 {
            println!("KNOWN-FINDING: property={} {} [signature {} ; {} case(s) this run]", pd.id, k.what, k.signature, hits);
        } else {
            println!("NOTE: listed finding not reproduced this run: property={} signature {}", pd.id, k.signature);
        }
    }
    drop(tot);
    let nviol = ctx.violations.lock().unwrap().len();
    let nsetup = *ctx.setup_failures.lock().unwrap();
    if nsetup > 0 {
        ctx.inconclusive(format!("{nsetup} case(s) could not be set up (honest prefix / build failed); see DESIGN.md 1.3"));
    }
    let inconclusive = ctx.inconclusive.lock().unwrap().clone();
    write_evidence(&ctx, pd, nviol);
    let wall = ctx.start.elapsed().as_secs_f64();
    let tot = ctx.total.lock().unwrap();
    println!(
        "{} {:?} seed={} evaluations={} distinct_nontrivial={} violations={} wall={:.1}s",
        pd.id,
        tier,
        seed,
        tot.evals,
        tot.nontrivial.len(),
        nviol,
        wall
    );
    if nviol > 0 {
        std::process::exit(1);
    }
    if !inconclusive.is_empty() {
        std::process::exit(2);
    }
    if tot.nontrivial.len() < 2 && ctx.only_sub.is_none() {
        println!("INCONCLUSIVE property={} generator hole: fewer than 2 non-trivial cases", pd.id);
        std::process::exit(2);
    }
}

fn replay_file(ctx: &Ctx, pd: &props::PropDef, path: &str) -> bool {
    let raw = match std::fs::read(path) {
        Ok(t) => t,
        Err(e) => {
            ctx.inconclusive(format!("cannot read replay file {path}: {e}"));
            return true;
        },
    };
    let parsed = std::str::from_utf8(&raw).ok().and_then(|t| serde_json::from_str::<serde_json::Value>(t).ok()).filter(|v| v.get("case").is_some());
    let v: serde_json::Value = match parsed {
        Some(v) => v,
        // not one of our JSON replay files: a raw libFuzzer artifact / corpus file
        None => serde_json::json!({"sub": "fuzz_bytes", "case": raw}),
    };
    let sub = v["sub"].as_str().unwrap_or("").to_string();
    let ok = (pd.replay)(ctx, &sub, &v["case"], path);
    println!("replay {} sub={} -> {}", path, sub, if ok { "held" } else { "VIOLATED" });
    ok
}

fn write_evidence(ctx: &Ctx, pd: &props::PropDef, nviol: usize) {
    let tot = ctx.total.lock().unwrap();
    let subs = ctx.subs.lock().unwrap();
    let sub_json: Vec<serde_json::Value> = subs
        .iter()
        .map(|s| serde_json::json!({"name": s.name, "evaluations": s.evals, "exhaustive": s.exhaustive, "wall_s": (s.wall_s*1000.0).round()/1000.0}))
        .collect();
    let all_exhaustive = !subs.is_empty() && subs.iter().all(|s| s.exhaustive);
    let mut labels: Vec<(&String, &u64)> = tot.labels.iter().collect();
    labels.sort();
    let label_map: serde_json::Map<String, serde_json::Value> =
        labels.into_iter().map(|(k, v)| (k.clone(), serde_json::json!(v))).collect();
    let ev = serde_json::json!({
        "property_id": pd.id,
        "tier": if ctx.tier == Tier::Quick { "quick" } else { "thorough" },
        "seed": ctx.seed as i64,
        "level": pd.level,
        "coverage": {
            "evaluations": tot.evals,
            "distinct_nontrivial": tot.nontrivial.len(),
            "rule": pd.rule,
            "samples": tot.samples,
            "exhaustive": all_exhaustive,
            "sub_checks": sub_json,
            "labels": label_map,
            "known_finding_hits": tot.known_hits,
            "not_judged": tot.skipped,
            "notes": *ctx.notes.lock().unwrap(),
            "technique": pd.technique,
        },
        "assumptions": pd.assumptions,
        "wall_s": (ctx.start.elapsed().as_secs_f64()*1000.0).round()/1000.0,
        "violations": nviol,
    });
    if ctx.only_sub.is_some() {
        return; // partial runs never overwrite evidence
    }
    let dir = ctx.verif_dir.join("evidence");
    let _ = std::fs::create_dir_all(&dir);
    let _ = std::fs::write(dir.join(format!("{}.json", pd.id)), serde_json::to_string_pretty(&ev).unwrap());
}
