//! One-off generator for golden/shaped_dh.json: private-key pairs (a, b) whose DH output has a
//! rare shape (leading / trailing zero bytes). Deterministic; run once, result committed.
use snowverif::engine::expand32;
use snowverif::refcrypto::{dh, dh_pub, DhKind};

fn main() {
    let mut out = Vec::new();
    for (dhk, name) in [(DhKind::X25519, "25519"), (DhKind::P256, "P256")] {
        for (shape, pred) in [
            ("lead00", (|o: &[u8]| o[0] == 0 && o[1] == 0) as fn(&[u8]) -> bool),
            ("trail00", |o: &[u8]| o[31] == 0 && o[30] == 0),
            ("lead0", |o: &[u8]| o[0] == 0),
            ("trail0", |o: &[u8]| o[31] == 0),
        ] {
            let mut a = expand32(0xD1CE, 1);
            if dhk == DhKind::P256 {
                a[0] &= 0x7f;
                a[31] |= 1;
            }
            let mut found = 0;
            for t in 0..3_000_000u64 {
                let mut b = expand32(0xD1CE + t, 2);
                if dhk == DhKind::P256 {
                    b[0] &= 0x7f;
                    b[31] |= 1;
                }
                let Some(pb) = dh_pub(dhk, &b) else { continue };
                let Some(o) = dh(dhk, &a, &pb) else { continue };
                if pred(&o) {
                    out.push(serde_json::json!({"dh": name, "shape": shape, "a": hex::encode(a), "b": hex::encode(b), "shared": hex::encode(&o)}));
                    found += 1;
                    if found == 2 {
                        break;
                    }
                }
            }
            eprintln!("{name} {shape}: {found}");
        }
    }
    println!("{}", serde_json::to_string_pretty(&out).unwrap());
}
