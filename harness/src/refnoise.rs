//! Clean-room reference model of the Noise Protocol Framework, revision 34 (DESIGN.md 2.1).
//!
//! Written from the specification text; shares no code or table with snow. The pattern
//! table below is in the specification's own notation (section 7.4-7.6) and is parsed by
//! `parse_pattern`. The model is validated against the third-party cacophony vectors
//! before any check trusts it (`self_test`).

use crate::refcrypto::{self as rc, CipherKind, DhKind, HashKind};
use serde::{Deserialize, Serialize};

/// `name : initiator pre-message ; responder pre-message ; messages separated by |`
pub const PATTERN_TABLE: &str = "
N    ;  s ; e es
K    s; s ; e es ss
X    ;  s ; e es s ss
NN   ;    ; e | e ee
NK   ;  s ; e es | e ee
NX   ;    ; e | e ee s es
XN   ;    ; e | e ee | s se
XK   ;  s ; e es | e ee | s se
XX   ;    ; e | e ee s es | s se
KN   s;   ; e | e ee se
KK   s; s ; e es ss | e ee se
KX   s;   ; e | e ee se s es
IN   ;    ; e s | e ee se
IK   ;  s ; e es s ss | e ee se
IX   ;    ; e s | e ee se s es
NK1  ;  s ; e | e ee es
NX1  ;    ; e | e ee s | es
X1N  ;    ; e | e ee | s | se
X1K  ;  s ; e es | e ee | s | se
XK1  ;  s ; e | e ee es | s se
X1K1 ;  s ; e | e ee es | s | se
X1X  ;    ; e | e ee s es | s | se
XX1  ;    ; e | e ee s | es s se
X1X1 ;    ; e | e ee s | es s | se
K1N  s;   ; e | e ee | se
K1K  s; s ; e es | e ee | se
KK1  s; s ; e | e ee se es
K1K1 s; s ; e | e ee es | se
K1X  s;   ; e | e ee s es | se
KX1  s;   ; e | e ee se s | es
K1X1 s;   ; e | e ee s | se es
I1N  ;    ; e s | e ee | se
I1K  ;  s ; e es s | e ee | se
IK1  ;  s ; e s | e ee se es
I1K1 ;  s ; e s | e ee es | se
I1X  ;    ; e s | e ee s es | se
IX1  ;    ; e s | e ee se s | es
I1X1 ;    ; e s | e ee s | se es
";

#[derive(Clone, Copy, Debug, PartialEq, Eq, Hash, Serialize, Deserialize)]
pub enum Tok {
    E,
    S,
    EE,
    ES,
    SE,
    SS,
    Psk(u8),
}

#[derive(Clone, Debug)]
pub struct Pattern {
    pub name: String,
    pub pre_i: Vec<Tok>,
    pub pre_r: Vec<Tok>,
    pub msgs: Vec<Vec<Tok>>,
}

fn toks(s: &str) -> Vec<Tok> {
    s.split_whitespace()
        .map(|t| match t {
            "e" => Tok::E,
            "s" => Tok::S,
            "ee" => Tok::EE,
            "es" => Tok::ES,
            "se" => Tok::SE,
            "ss" => Tok::SS,
            _ => panic!("bad token {t}"),
        })
        .collect()
}

pub fn all_patterns() -> Vec<Pattern> {
    PATTERN_TABLE
        .lines()
        .filter(|l| !l.trim().is_empty())
        .map(|l| {
            let l = l.trim();
            let (name, rest) = l.split_once(char::is_whitespace).unwrap();
            let parts: Vec<&str> = rest.split(';').collect();
            assert_eq!(parts.len(), 3);
            Pattern {
                name: name.to_string(),
                pre_i: toks(parts[0]),
                pre_r: toks(parts[1]),
                msgs: parts[2].split('|').map(toks).collect(),
            }
        })
        .collect()
}

pub fn pattern(name: &str) -> Option<Pattern> {
    all_patterns().into_iter().find(|p| p.name == name)
}

impl Pattern {
    pub fn is_oneway(&self) -> bool {
        self.msgs.len() == 1
    }
    /// Apply pskN modifiers (spec section 9): psk0 at the beginning of the first message,
    /// pskN at the end of message N.
    pub fn with_psks(&self, psks: &[u8]) -> Option<Vec<Vec<Tok>>> {
        let mut m = self.msgs.clone();
        for &n in psks {
            if n == 0 {
                m[0].insert(0, Tok::Psk(0));
            } else {
                let idx = n as usize - 1;
                if idx >= m.len() {
                    return None;
                }
                m[idx].push(Tok::Psk(n));
            }
        }
        Some(m)
    }
    /// Does `role`'s static key occur in the pattern (pre-message or message token)?
    pub fn role_uses_static(&self, initiator: bool) -> bool {
        let pre = if initiator { &self.pre_i } else { &self.pre_r };
        if pre.contains(&Tok::S) {
            return true;
        }
        self.msgs.iter().enumerate().any(|(i, m)| ((i % 2 == 0) == initiator) && m.contains(&Tok::S))
    }
    /// Does the pattern pre-share the *peer's* static key with `role`?
    pub fn role_needs_remote_static(&self, initiator: bool) -> bool {
        let pre = if initiator { &self.pre_r } else { &self.pre_i };
        pre.contains(&Tok::S)
    }
    /// Index of the message that transmits the peer's static key to `role`, if any.
    pub fn remote_static_arrives_at(&self, initiator: bool) -> Option<usize> {
        self.msgs.iter().enumerate().position(|(i, m)| ((i % 2 == 0) != initiator) && m.contains(&Tok::S))
    }
}

#[derive(Clone, Copy, Debug, PartialEq, Eq, Hash, Serialize, Deserialize, PartialOrd, Ord)]
pub struct Suite {
    pub dh: DhKind,
    pub cipher: CipherKind,
    pub hash: HashKind,
}

#[derive(Clone, Copy, Debug, PartialEq, Eq, Hash, Serialize, Deserialize)]
pub enum FieldKind {
    E,
    S,
    Payload,
}

#[derive(Clone, Debug, PartialEq, Eq, Serialize, Deserialize)]
pub struct Field {
    pub kind: FieldKind,
    pub off: usize,
    /// length on the wire (including the 16-byte tag when encrypted)
    pub len: usize,
    pub encrypted: bool,
}

/// Static layout of message `idx` (independent of key values).
#[derive(Clone, Debug)]
pub struct MsgLayout {
    /// fixed fields before the payload
    pub fields: Vec<Field>,
    /// is the payload encrypted
    pub payload_encrypted: bool,
    /// bytes of the message that are not payload (public keys + all tags)
    pub overhead: usize,
    /// number of tokens processed before each fixed field (for labelling)
    pub has_e: bool,
}

/// Layouts for all messages of `msgs` (already psk-modified) for the given DH.
pub fn layouts(msgs: &[Vec<Tok>], dh: DhKind) -> Vec<MsgLayout> {
    layouts_with_len(msgs, dh.pub_len())
}

/// The same for any DH function whose public keys are `pub_len` bytes long.
pub fn layouts_with_len(msgs: &[Vec<Tok>], pub_len: usize) -> Vec<MsgLayout> {
    let is_psk = msgs.iter().flatten().any(|t| matches!(t, Tok::Psk(_)));
    let mut has_key = false;
    let mut out = Vec::new();
    for m in msgs {
        let mut off = 0;
        let mut fields = Vec::new();
        let mut has_e = false;
        for t in m {
            match t {
                Tok::E => {
                    fields.push(Field { kind: FieldKind::E, off, len: pub_len, encrypted: false });
                    off += pub_len;
                    has_e = true;
                    if is_psk {
                        has_key = true;
                    }
                },
                Tok::S => {
                    let l = pub_len + if has_key { 16 } else { 0 };
                    fields.push(Field { kind: FieldKind::S, off, len: l, encrypted: has_key });
                    off += l;
                },
                _ => has_key = true,
            }
        }
        out.push(MsgLayout {
            fields,
            payload_encrypted: has_key,
            overhead: off + if has_key { 16 } else { 0 },
            has_e,
        });
    }
    out
}

#[derive(Clone, Debug, PartialEq, Eq)]
pub enum RefErr {
    /// message shorter than its fixed fields
    Short,
    /// AEAD authentication failed
    Auth,
    /// DH input rejected (invalid P-256 point)
    Dh,
    /// psk needed but not supplied
    MissingPsk,
    /// key material missing (model misuse)
    Missing(&'static str),
    /// not this party's turn / finished
    Turn,
    /// would exceed 65535
    TooLong,
}

#[derive(Clone)]
pub struct KeyPair {
    pub privkey: [u8; 32],
    pub pubkey: Vec<u8>,
}

impl KeyPair {
    pub fn from_priv(dh: DhKind, privkey: [u8; 32]) -> Option<KeyPair> {
        Some(KeyPair { privkey, pubkey: rc::dh_pub(dh, &privkey)? })
    }
}

/// The HandshakeState + SymmetricState + CipherState objects of the specification, section 5.
#[derive(Clone)]
pub struct RefHs {
    pub suite: Suite,
    pub initiator: bool,
    pub msgs: Vec<Vec<Tok>>,
    pub is_psk: bool,
    pub s: Option<KeyPair>,
    pub e: Option<KeyPair>,
    pub rs: Option<Vec<u8>>,
    pub re: Option<Vec<u8>>,
    pub psks: [Option<[u8; 32]>; 10],
    pub h: Vec<u8>,
    pub ck: Vec<u8>,
    pub k: Option<[u8; 32]>,
    pub n: u64,
    pub pos: usize,
}

pub struct WriteOut {
    pub msg: Vec<u8>,
    pub fields: Vec<Field>,
    pub payload_encrypted: bool,
}

pub struct ReadOut {
    pub payload: Vec<u8>,
    pub fields: Vec<Field>,
}

impl RefHs {
    /// `name` is the byte string hashed by InitializeSymmetric (normally the protocol name).
    #[allow(clippy::too_many_arguments)]
    pub fn new(
        name: &[u8],
        pat: &Pattern,
        psk_mods: &[u8],
        suite: Suite,
        initiator: bool,
        prologue: &[u8],
        s: Option<KeyPair>,
        rs: Option<Vec<u8>>,
        psks: [Option<[u8; 32]>; 10],
    ) -> Result<RefHs, RefErr> {
        let msgs = pat.with_psks(psk_mods).ok_or(RefErr::Missing("psk index beyond message count"))?;
        let hl = suite.hash.hash_len();
        // InitializeSymmetric
        let h = if name.len() <= hl {
            let mut v = name.to_vec();
            v.resize(hl, 0);
            v
        } else {
            suite.hash.hash(&[name])
        };
        let mut hs = RefHs {
            suite,
            initiator,
            msgs,
            is_psk: !psk_mods.is_empty(),
            s,
            e: None,
            rs,
            re: None,
            psks,
            ck: h.clone(),
            h,
            k: None,
            n: 0,
            pos: 0,
        };
        hs.mix_hash(prologue);
        // pre-messages: initiator's first, then responder's
        for t in &pat.pre_i {
            assert_eq!(*t, Tok::S);
            let key = if initiator {
                hs.s.as_ref().ok_or(RefErr::Missing("s"))?.pubkey.clone()
            } else {
                hs.rs.clone().ok_or(RefErr::Missing("rs"))?
            };
            hs.mix_hash(&key);
        }
        for t in &pat.pre_r {
            assert_eq!(*t, Tok::S);
            let key = if initiator {
                hs.rs.clone().ok_or(RefErr::Missing("rs"))?
            } else {
                hs.s.as_ref().ok_or(RefErr::Missing("s"))?.pubkey.clone()
            };
            hs.mix_hash(&key);
        }
        Ok(hs)
    }

    fn mix_hash(&mut self, data: &[u8]) {
        self.h = self.suite.hash.hash(&[&self.h, data]);
    }
    fn mix_key(&mut self, ikm: &[u8]) {
        let o = rc::hkdf(self.suite.hash, &self.ck, ikm, 2);
        self.ck = o[0].clone();
        let mut k = [0u8; 32];
        k.copy_from_slice(&o[1][..32]);
        self.k = Some(k);
        self.n = 0;
    }
    fn mix_key_and_hash(&mut self, ikm: &[u8]) {
        let o = rc::hkdf(self.suite.hash, &self.ck, ikm, 3);
        self.ck = o[0].clone();
        let t = o[1].clone();
        self.mix_hash(&t);
        let mut k = [0u8; 32];
        k.copy_from_slice(&o[2][..32]);
        self.k = Some(k);
        self.n = 0;
    }
    fn encrypt_and_hash(&mut self, pt: &[u8]) -> Vec<u8> {
        let ct = match self.k {
            Some(k) => {
                let c = rc::aead_encrypt(self.suite.cipher, &k, self.n, &self.h, pt);
                self.n += 1;
                c
            },
            None => pt.to_vec(),
        };
        self.mix_hash(&ct);
        ct
    }
    fn decrypt_and_hash(&mut self, ct: &[u8]) -> Result<Vec<u8>, RefErr> {
        let pt = match self.k {
            Some(k) => {
                let p = rc::aead_decrypt(self.suite.cipher, &k, self.n, &self.h, ct).ok_or(RefErr::Auth)?;
                self.n += 1;
                p
            },
            None => ct.to_vec(),
        };
        self.mix_hash(ct);
        Ok(pt)
    }
    fn dh_tok(&mut self, t: Tok) -> Result<(), RefErr> {
        let (kp, pk) = match (t, self.initiator) {
            (Tok::EE, _) => (&self.e, &self.re),
            (Tok::SS, _) => (&self.s, &self.rs),
            (Tok::ES, true) | (Tok::SE, false) => (&self.e, &self.rs),
            (Tok::SE, true) | (Tok::ES, false) => (&self.s, &self.re),
            _ => unreachable!(),
        };
        let kp = kp.as_ref().ok_or(RefErr::Missing("local dh key"))?;
        let pk = pk.as_ref().ok_or(RefErr::Missing("remote dh key"))?;
        let out = rc::dh(self.suite.dh, &kp.privkey, pk).ok_or(RefErr::Dh)?;
        self.mix_key(&out);
        Ok(())
    }

    pub fn my_turn(&self) -> bool {
        self.pos < self.msgs.len() && ((self.pos % 2 == 0) == self.initiator)
    }
    pub fn finished(&self) -> bool {
        self.pos == self.msgs.len()
    }
    pub fn has_key(&self) -> bool {
        self.k.is_some()
    }

    /// WriteMessage. `e_priv` is the ephemeral private key to use if the message has an `e`
    /// token. On error the state is left unchanged (clone-and-commit).
    pub fn write(&mut self, e_priv: Option<[u8; 32]>, payload: &[u8]) -> Result<WriteOut, RefErr> {
        if !self.my_turn() {
            return Err(RefErr::Turn);
        }
        let mut st = self.clone();
        let mut msg = Vec::new();
        let mut fields = Vec::new();
        let toks = st.msgs[st.pos].clone();
        for t in toks {
            match t {
                Tok::E => {
                    let kp = KeyPair::from_priv(st.suite.dh, e_priv.ok_or(RefErr::Missing("e"))?)
                        .ok_or(RefErr::Missing("invalid e"))?;
                    fields.push(Field { kind: FieldKind::E, off: msg.len(), len: kp.pubkey.len(), encrypted: false });
                    msg.extend_from_slice(&kp.pubkey);
                    st.mix_hash(&kp.pubkey);
                    if st.is_psk {
                        st.mix_key(&kp.pubkey);
                    }
                    st.e = Some(kp);
                },
                Tok::S => {
                    let pk = st.s.as_ref().ok_or(RefErr::Missing("s"))?.pubkey.clone();
                    let enc = st.has_key();
                    let ct = st.encrypt_and_hash(&pk);
                    fields.push(Field { kind: FieldKind::S, off: msg.len(), len: ct.len(), encrypted: enc });
                    msg.extend_from_slice(&ct);
                },
                Tok::Psk(n) => {
                    let psk = st.psks[n as usize].ok_or(RefErr::MissingPsk)?;
                    st.mix_key_and_hash(&psk);
                },
                d => st.dh_tok(d)?,
            }
        }
        let enc = st.has_key();
        let ct = st.encrypt_and_hash(payload);
        fields.push(Field { kind: FieldKind::Payload, off: msg.len(), len: ct.len(), encrypted: enc });
        msg.extend_from_slice(&ct);
        if msg.len() > 65535 {
            return Err(RefErr::TooLong);
        }
        st.pos += 1;
        *self = st;
        Ok(WriteOut { msg, fields, payload_encrypted: enc })
    }

    /// ReadMessage; state unchanged on error.
    pub fn read(&mut self, msg: &[u8]) -> Result<ReadOut, RefErr> {
        if self.finished() || self.my_turn() {
            return Err(RefErr::Turn);
        }
        if msg.len() > 65535 {
            return Err(RefErr::TooLong);
        }
        let mut st = self.clone();
        let mut off = 0usize;
        let mut fields = Vec::new();
        let pl = st.suite.dh.pub_len();
        let toks = st.msgs[st.pos].clone();
        for t in toks {
            match t {
                Tok::E => {
                    if msg.len() < off + pl {
                        return Err(RefErr::Short);
                    }
                    let re = msg[off..off + pl].to_vec();
                    fields.push(Field { kind: FieldKind::E, off, len: pl, encrypted: false });
                    off += pl;
                    st.mix_hash(&re);
                    if st.is_psk {
                        st.mix_key(&re);
                    }
                    st.re = Some(re);
                },
                Tok::S => {
                    let enc = st.has_key();
                    let l = pl + if enc { 16 } else { 0 };
                    if msg.len() < off + l {
                        return Err(RefErr::Short);
                    }
                    let rs = st.decrypt_and_hash(&msg[off..off + l])?;
                    fields.push(Field { kind: FieldKind::S, off, len: l, encrypted: enc });
                    off += l;
                    st.rs = Some(rs);
                },
                Tok::Psk(n) => {
                    let psk = st.psks[n as usize].ok_or(RefErr::MissingPsk)?;
                    st.mix_key_and_hash(&psk);
                },
                d => st.dh_tok(d)?,
            }
        }
        let enc = st.has_key();
        if enc && msg.len() - off < 16 {
            return Err(RefErr::Short);
        }
        let payload = st.decrypt_and_hash(&msg[off..])?;
        fields.push(Field { kind: FieldKind::Payload, off, len: msg.len() - off, encrypted: enc });
        st.pos += 1;
        *self = st;
        Ok(ReadOut { payload, fields })
    }

    /// Split(): (c1 key = initiator->responder, c2 key = responder->initiator)
    pub fn split(&self) -> ([u8; 32], [u8; 32]) {
        let o = rc::hkdf(self.suite.hash, &self.ck, &[], 2);
        let mut k1 = [0u8; 32];
        let mut k2 = [0u8; 32];
        k1.copy_from_slice(&o[0][..32]);
        k2.copy_from_slice(&o[1][..32]);
        (k1, k2)
    }
}

/// Transport phase of the reference model: two keys and two counters.
#[derive(Clone)]
pub struct RefTransport {
    pub cipher: CipherKind,
    pub initiator: bool,
    pub k_i2r: [u8; 32],
    pub k_r2i: [u8; 32],
    pub n_send: u64,
    pub n_recv: u64,
}

impl RefTransport {
    pub fn from_hs(hs: &RefHs) -> RefTransport {
        let (k1, k2) = hs.split();
        RefTransport { cipher: hs.suite.cipher, initiator: hs.initiator, k_i2r: k1, k_r2i: k2, n_send: 0, n_recv: 0 }
    }
    pub fn send_key(&self) -> &[u8; 32] {
        if self.initiator {
            &self.k_i2r
        } else {
            &self.k_r2i
        }
    }
    pub fn recv_key(&self) -> &[u8; 32] {
        if self.initiator {
            &self.k_r2i
        } else {
            &self.k_i2r
        }
    }
    pub fn write(&mut self, payload: &[u8]) -> Vec<u8> {
        let c = rc::aead_encrypt(self.cipher, self.send_key(), self.n_send, &[], payload);
        self.n_send += 1;
        c
    }
    pub fn read(&mut self, msg: &[u8]) -> Option<Vec<u8>> {
        let p = rc::aead_decrypt(self.cipher, self.recv_key(), self.n_recv, &[], msg)?;
        self.n_recv += 1;
        Some(p)
    }
}

// ---------------------------------------------------------------------------------------------
// Validation of the model against the cacophony vectors

#[derive(Deserialize)]
pub struct VecMsg {
    pub payload: String,
    pub ciphertext: String,
}

#[derive(Deserialize)]
pub struct Vector {
    pub protocol_name: String,
    #[serde(default)]
    pub init_prologue: String,
    pub init_static: Option<String>,
    pub init_ephemeral: Option<String>,
    pub init_remote_static: Option<String>,
    #[serde(default)]
    pub init_psks: Vec<String>,
    #[serde(default)]
    pub resp_prologue: String,
    pub resp_static: Option<String>,
    pub resp_ephemeral: Option<String>,
    pub resp_remote_static: Option<String>,
    #[serde(default)]
    pub resp_psks: Vec<String>,
    pub handshake_hash: Option<String>,
    pub messages: Vec<VecMsg>,
}

#[derive(Deserialize)]
pub struct Vectors {
    pub vectors: Vec<Vector>,
}

pub fn h32(s: &str) -> [u8; 32] {
    let v = hex::decode(s).expect("hex");
    let mut a = [0u8; 32];
    a.copy_from_slice(&v);
    a
}

/// Parsed protocol name (by the *model's* own tiny parser, used for vectors and generators).
#[derive(Clone, Debug)]
pub struct ParsedName {
    pub pattern: Pattern,
    pub psk_mods: Vec<u8>,
    pub suite: Suite,
}

pub fn parse_name(name: &str) -> Option<ParsedName> {
    let parts: Vec<&str> = name.split('_').collect();
    if parts.len() != 5 || parts[0] != "Noise" {
        return None;
    }
    let hp = parts[1];
    let pats = all_patterns();
    let mut best: Option<&Pattern> = None;
    for p in &pats {
        if hp.starts_with(&p.name) && best.map_or(true, |b| p.name.len() > b.name.len()) {
            best = Some(p);
        }
    }
    let pat = best?.clone();
    let rest = &hp[pat.name.len()..];
    let mut psk_mods = Vec::new();
    if !rest.is_empty() {
        for m in rest.split('+') {
            let n: u8 = m.strip_prefix("psk")?.parse().ok()?;
            psk_mods.push(n);
        }
    }
    let dh = match parts[2] {
        "25519" => DhKind::X25519,
        "P256" => DhKind::P256,
        _ => return None,
    };
    let cipher = match parts[3] {
        "ChaChaPoly" => CipherKind::ChaChaPoly,
        "AESGCM" => CipherKind::AesGcm,
        "XChaChaPoly" => CipherKind::XChaChaPoly,
        _ => return None,
    };
    let hash = match parts[4] {
        "SHA256" => HashKind::Sha256,
        "SHA512" => HashKind::Sha512,
        "BLAKE2s" => HashKind::Blake2s,
        "BLAKE2b" => HashKind::Blake2b,
        _ => return None,
    };
    Some(ParsedName { pattern: pat, psk_mods, suite: Suite { dh, cipher, hash } })
}

pub fn load_vectors(golden_dir: &std::path::Path) -> Result<Vec<Vector>, String> {
    let txt = std::fs::read_to_string(golden_dir.join("cacophony.txt")).map_err(|e| format!("cacophony.txt: {e}"))?;
    let v: Vectors = serde_json::from_str(&txt).map_err(|e| e.to_string())?;
    Ok(v.vectors.into_iter().filter(|v| v.protocol_name.split('_').nth(2) == Some("25519")).collect())
}

/// psks listed in a vector are in modifier order; map them to psk-slot indices.
pub fn vector_psks(pn: &ParsedName, list: &[String]) -> [Option<[u8; 32]>; 10] {
    let mut psks = [None; 10];
    for (i, m) in pn.psk_mods.iter().enumerate() {
        if let Some(p) = list.get(i) {
            psks[*m as usize] = Some(h32(p));
        }
    }
    psks
}

/// Run one vector through the model alone. Returns number of messages compared.
pub fn check_vector_with_model(v: &Vector) -> Result<usize, String> {
    let pn = parse_name(&v.protocol_name).ok_or_else(|| format!("unparsable {}", v.protocol_name))?;
    let dh = pn.suite.dh;
    let kp = |s: &Option<String>| s.as_ref().map(|x| KeyPair::from_priv(dh, h32(x)).unwrap());
    let mut i = RefHs::new(
        v.protocol_name.as_bytes(),
        &pn.pattern,
        &pn.psk_mods,
        pn.suite,
        true,
        &hex::decode(&v.init_prologue).unwrap(),
        kp(&v.init_static),
        v.init_remote_static.as_ref().map(|x| hex::decode(x).unwrap()),
        vector_psks(&pn, &v.init_psks),
    )
    .map_err(|e| format!("{}: init new {e:?}", v.protocol_name))?;
    let mut r = RefHs::new(
        v.protocol_name.as_bytes(),
        &pn.pattern,
        &pn.psk_mods,
        pn.suite,
        false,
        &hex::decode(&v.resp_prologue).unwrap(),
        kp(&v.resp_static),
        v.resp_remote_static.as_ref().map(|x| hex::decode(x).unwrap()),
        vector_psks(&pn, &v.resp_psks),
    )
    .map_err(|e| format!("{}: resp new {e:?}", v.protocol_name))?;
    let ie = v.init_ephemeral.as_ref().map(|x| h32(x));
    let re = v.resp_ephemeral.as_ref().map(|x| h32(x));
    let nm = pn.pattern.msgs.len();
    let mut compared = 0;
    for (idx, m) in v.messages.iter().enumerate().take(nm) {
        let payload = hex::decode(&m.payload).unwrap();
        let expect = hex::decode(&m.ciphertext).unwrap();
        let (w, rd, e) = if idx % 2 == 0 { (&mut i, &mut r, ie) } else { (&mut r, &mut i, re) };
        let out = w.write(e, &payload).map_err(|e| format!("{} msg {idx}: write {e:?}", v.protocol_name))?;
        if out.msg != expect {
            return Err(format!("{} msg {idx}: model bytes differ from vector", v.protocol_name));
        }
        let got = rd.read(&out.msg).map_err(|e| format!("{} msg {idx}: read {e:?}", v.protocol_name))?;
        if got.payload != payload {
            return Err(format!("{} msg {idx}: payload", v.protocol_name));
        }
        compared += 1;
    }
    if let Some(hh) = &v.handshake_hash {
        if hex::encode(&i.h) != *hh || i.h != r.h {
            return Err(format!("{}: handshake hash", v.protocol_name));
        }
    }
    let mut ti = RefTransport::from_hs(&i);
    let mut tr = RefTransport::from_hs(&r);
    for (idx, m) in v.messages.iter().enumerate().skip(nm) {
        let payload = hex::decode(&m.payload).unwrap();
        let expect = hex::decode(&m.ciphertext).unwrap();
        let (w, rd) = if pn.pattern.is_oneway() || idx % 2 == 0 { (&mut ti, &mut tr) } else { (&mut tr, &mut ti) };
        let c = w.write(&payload);
        if c != expect {
            return Err(format!("{} transport msg {idx}: model bytes differ from vector", v.protocol_name));
        }
        if rd.read(&c).as_deref() != Some(&payload[..]) {
            return Err(format!("{} transport msg {idx}: read", v.protocol_name));
        }
        compared += 1;
    }
    Ok(compared)
}

/// Oracle self-test: every Curve25519 cacophony vector must be reproduced by the model alone.
pub fn self_test(golden_dir: &std::path::Path) -> Result<(usize, usize), String> {
    let vs = load_vectors(golden_dir)?;
    if vs.len() < 400 {
        return Err(format!("only {} vectors found", vs.len()));
    }
    let mut msgs = 0;
    for v in &vs {
        msgs += check_vector_with_model(v)?;
    }
    Ok((vs.len(), msgs))
}
