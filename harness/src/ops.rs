//! API op-sequence interpreter (DESIGN.md C10 (b)/(c)): arbitrary builder configurations and
//! arbitrary interleavings of public calls on two endpoints. Used by the C10 proptest
//! strategy and by the `api_ops` libFuzzer target (via `decode`).

use crate::engine::{expand, pick, Fail};
use crate::props::common::call;
use crate::refcrypto::DhKind;
use crate::refnoise as rn;
use crate::sess::*;
use proptest::prelude::*;
use serde::{Deserialize, Serialize};
use snow::{HandshakeState, StatelessTransportState, TransportState};

#[derive(Clone, Debug, Serialize, Deserialize, PartialEq)]
pub enum NameSel {
    /// a valid canonical name: (index into the 556 handshake strings, suite index)
    Valid(u16, u8),
    /// a valid name with one edit: (hs idx, suite idx, position, kind, char)
    Edited(u16, u8, u16, u8, u8),
    Raw(String),
    /// a NoiseParams value assembled by hand through the public constructor and public fields:
    /// (pattern index, modifier list where 255 = fallback and any other value v = psk(v), repeats
    /// allowed, suite index, name string)
    Hand(u8, Vec<u8>, u8, String),
}

#[derive(Clone, Debug, Serialize, Deserialize, PartialEq)]
pub enum KeySel {
    None,
    /// well-formed key of the right length (valid scalar / valid point)
    Valid,
    /// arbitrary bytes of the given length (0..=200); private P-256 scalars are kept valid
    /// by construction unless `raw_scalar` is set on the setup
    Len(u8),
}

#[derive(Clone, Debug, Serialize, Deserialize, PartialEq)]
pub struct SideSetup {
    pub initiator: bool,
    pub s: KeySel,
    pub rs: KeySel,
    pub fixed_e: KeySel,
    pub prologue_len: u32,
    /// psk locations to set on the builder (any u8)
    pub psks: Vec<u8>,
    /// bit 0: call local_private_key twice, bit 1: remote_public_key twice, bit 2: prologue twice, bit 3: psk twice
    pub dup: u8,
    /// use FallbackResolver(ring, default) instead of the default resolver
    #[serde(default)]
    pub ring: bool,
}

#[derive(Clone, Debug, Serialize, Deserialize, PartialEq)]
pub struct Setup {
    pub name: NameSel,
    pub sides: [SideSetup; 2],
    pub seed: u64,
}

#[derive(Clone, Copy, Debug, Serialize, Deserialize, PartialEq)]
pub enum Who {
    A,
    B,
    /// whoever the protocol expects to act (writer for Write, receiver of a pending message for Read)
    Auto,
}

#[derive(Clone, Copy, Debug, Serialize, Deserialize, PartialEq)]
pub enum Edit {
    None,
    Flip(u16, u8),
    Trunc(u16),
    Extend(u8),
}

#[derive(Clone, Copy, Debug, Serialize, Deserialize, PartialEq)]
pub enum NonceSel {
    /// the endpoint's own count of successful writes / reads
    Ctr,
    Val(u64),
}

#[derive(Clone, Debug, Serialize, Deserialize, PartialEq)]
pub enum Op {
    Write { w: Who, plen: u32, buf: u32, nonce: NonceSel },
    ReadPeer { w: Who, buf: u32, edit: Edit, nonce: NonceSel },
    ReadRaw { w: Who, len: u32, fill: u8, buf: u32, nonce: NonceSel },
    SetPsk { w: Who, loc: u8, len: u8 },
    Query { w: Who },
    Convert { w: Who, stateless: bool },
    Rekey { w: Who, kind: u8, key: u8 },
    SetRecvNonce { w: Who, nonce: u64 },
    SetSendNonce { w: Who, nonce: u64 },
    /// one honest exchange: the endpoint whose turn it is writes (ample buffer), the peer reads
    Step { plen: u32 },
}

#[derive(Clone, Debug, Serialize, Deserialize, PartialEq)]
pub struct Script {
    pub setup: Setup,
    pub ops: Vec<Op>,
}

pub enum Ep {
    Gone,
    Hs(Box<HandshakeState>),
    T(Box<TransportState>),
    Sl(Box<StatelessTransportState>),
}

#[derive(Default, Debug, Clone)]
pub struct Stats {
    pub parsed: bool,
    pub built: [bool; 2],
    pub hs_ok_writes: usize,
    pub hs_ok_reads: usize,
    pub t_ok_writes: usize,
    pub t_ok_reads: usize,
    pub errs: usize,
    pub calls: usize,
    pub converted: usize,
    pub excluded_p256_scalar: usize,
}

pub fn name_string(sel: &NameSel) -> String {
    let names = all_hs_names();
    let suites = all_suites();
    match sel {
        NameSel::Valid(h, s) => proto_name(&names[pick(*h, names.len())].string(), suites[*s as usize % suites.len()]),
        NameSel::Edited(h, s, pos, kind, ch) => {
            let base = proto_name(&names[pick(*h, names.len())].string(), suites[*s as usize % suites.len()]);
            edit_string(&base, *pos as usize, *kind, *ch)
        },
        NameSel::Raw(s) => s.clone(),
        NameSel::Hand(_, _, _, n) => n.clone(),
    }
}

/// PSK location for `set_psk` (a usize): byte values 250..=255 stand for huge locations.
pub fn psk_location(loc: u8) -> usize {
    match loc {
        250 => usize::MAX,
        251 => usize::MAX - 1,
        252 => 1usize << 32,
        253 => 1usize << 63,
        254 => 256,
        255 => 65536,
        x => x as usize,
    }
}

/// NoiseParams built without the parser (public API: NoiseParams::new + public fields).
pub fn hand_params(p: u8, mods: &[u8], suite: u8, name: &str) -> snow::params::NoiseParams {
    use snow::params::*;
    let suites = all_suites();
    let s = suites[suite as usize % suites.len()];
    let pattern = SUPPORTED_HANDSHAKE_PATTERNS[p as usize % SUPPORTED_HANDSHAKE_PATTERNS.len()];
    let list: Vec<HandshakeModifier> = mods.iter().map(|m| if *m == 255 { HandshakeModifier::Fallback } else { HandshakeModifier::Psk(*m) }).collect();
    let hc = HandshakeChoice { pattern, modifiers: HandshakeModifierList { list } };
    #[cfg(not(feature = "hfs"))]
    let np = NoiseParams::new(name.to_string(), BaseChoice::Noise, hc, snow_dh(s.dh), snow_cipher(s.cipher), snow_hash(s.hash));
    #[cfg(feature = "hfs")]
    let np = NoiseParams::new(name.to_string(), BaseChoice::Noise, hc, snow_dh(s.dh), None, snow_cipher(s.cipher), snow_hash(s.hash));
    np
}

pub const EDIT_ALPHABET: &[char] =
    &['_', '+', ' ', '\0', 'é', '雪', 'N', 'X', 'K', 'I', '1', '0', '9', 'p', 's', 'k', 'f', 'a', '2', '5', 'S', 'H', 'A', 'B', 'x', 'P', '6', '4', '8'];

/// One single-character edit of `s` (char-boundary safe).
pub fn edit_string(s: &str, pos: usize, kind: u8, ch: u8) -> String {
    let chars: Vec<char> = s.chars().collect();
    let c = EDIT_ALPHABET[ch as usize % EDIT_ALPHABET.len()];
    let mut out: Vec<char> = chars.clone();
    if chars.is_empty() {
        return c.to_string();
    }
    let p = pos % (chars.len() + 1);
    match kind % 5 {
        0 => {
            if p < out.len() {
                out.remove(p);
            }
        },
        1 => out.insert(p, c),
        2 => {
            if p < out.len() {
                out[p] = c;
            }
        },
        3 => {
            if p < out.len() {
                let d = out[p];
                out.insert(p, d);
            }
        },
        _ => {
            if p < out.len() {
                let d = out[p];
                out[p] = if d.is_ascii_uppercase() { d.to_ascii_lowercase() } else { d.to_ascii_uppercase() };
            }
        },
    }
    out.into_iter().collect()
}

fn key_bytes(sel: &KeySel, valid: &[u8], seed: u64, label: u64, private_p256: bool, st: &mut Stats) -> Option<Vec<u8>> {
    match sel {
        KeySel::None => None,
        KeySel::Valid => Some(valid.to_vec()),
        KeySel::Len(l) => {
            let mut v = expand(seed, label, *l as usize);
            if private_p256 && v.is_empty() {
                // an empty key is zero-padded to the scalar 0: same finding, excluded
                v = vec![1];
            }
            if private_p256 && !v.is_empty() {
                // keep P-256 private scalars valid: the invalid-scalar panic is the recorded
                // finding D4 (known_findings.json) and is excluded from the search by construction
                st.excluded_p256_scalar += 1;
                v[0] &= 0x7f;
                let l = v.len().min(32);
                v[l - 1] |= 1;
            }
            Some(v)
        },
    }
}

fn build_side(params: snow::params::NoiseParams, dh: Option<DhKind>, side: &SideSetup, idx: usize, seed: u64, st: &mut Stats) -> Result<Option<HandshakeState>, Fail> {
    let dhk = dh.unwrap_or(DhKind::X25519);
    let my_priv = priv_from_seed(dhk, seed, 1 + idx as u64);
    let peer_priv = priv_from_seed(dhk, seed, 2 - idx as u64);
    let peer_pub = crate::refcrypto::dh_pub(dhk, &peer_priv).unwrap();
    let e_priv = priv_from_seed(dhk, seed, 3 + idx as u64);
    let p256 = dhk == DhKind::P256;
    let s = key_bytes(&side.s, &my_priv, seed, 50 + idx as u64, p256, st);
    let rs = key_bytes(&side.rs, &peer_pub, seed, 60 + idx as u64, false, st);
    let fe = key_bytes(&side.fixed_e, &e_priv, seed, 70 + idx as u64, p256, st);
    let prologue = expand(seed, 80, side.prologue_len.min(66000) as usize);
    let psk_vals: Vec<[u8; 32]> = side.psks.iter().map(|n| crate::engine::expand32(seed, 100 + *n as u64)).collect();
    let res = call("Builder configuration + build", || -> Result<HandshakeState, snow::Error> {
        let rng = crate::instr::SharedRng::seeded(seed ^ idx as u64, p256);
        let resolver = crate::instr::VResolver::new(if side.ring { crate::instr::Backend::RingFirst } else { crate::instr::Backend::Default }, Some(rng), None);
        let mut b = snow::Builder::with_resolver(params, Box::new(resolver));
        if let Some(k) = &s {
            b = b.local_private_key(k)?;
            if side.dup & 1 != 0 {
                b = b.local_private_key(k)?;
            }
        }
        if let Some(k) = &rs {
            b = b.remote_public_key(k)?;
            if side.dup & 2 != 0 {
                b = b.remote_public_key(k)?;
            }
        }
        if let Some(k) = &fe {
            b = b.fixed_ephemeral_key_for_testing_only(k);
        }
        if side.prologue_len > 0 || side.dup & 4 != 0 {
            b = b.prologue(&prologue)?;
            if side.dup & 4 != 0 {
                b = b.prologue(&prologue)?;
            }
        }
        for (n, v) in side.psks.iter().zip(psk_vals.iter()) {
            b = b.psk(*n, v)?;
            if side.dup & 8 != 0 {
                b = b.psk(*n, v)?;
            }
        }
        let _ = b.generate_keypair();
        if side.initiator {
            b.build_initiator()
        } else {
            b.build_responder()
        }
    })?;
    Ok(res.ok())
}

struct Side {
    ep: Ep,
    /// last message this endpoint produced (for the peer's ReadPeer)
    last_out: Option<Vec<u8>>,
    delivered: bool,
    ok_writes: u64,
    ok_reads: u64,
}

fn edit_msg(m: &[u8], e: Edit) -> Vec<u8> {
    let mut v = m.to_vec();
    match e {
        Edit::None => {},
        Edit::Flip(p, b) => {
            if !v.is_empty() {
                let i = p as usize % v.len();
                v[i] ^= 1 << (b % 8);
            }
        },
        Edit::Trunc(l) => {
            let l = if v.is_empty() { 0 } else { l as usize % (v.len() + 1) };
            v.truncate(l);
        },
        Edit::Extend(n) => v.extend(std::iter::repeat(0xA5).take(n as usize)),
    }
    v
}

/// Execute a script. `Err` = a public call panicked (with signature). Every call is expected
/// to return Ok or Err; nothing else is judged here.
pub fn execute(script: &Script) -> Result<Stats, Fail> {
    let mut st = Stats::default();
    let name = name_string(&script.setup.name);
    st.calls += 1;
    let parsed = match &script.setup.name {
        NameSel::Hand(p, mods, suite, n) => Ok(call("NoiseParams::new", || hand_params(*p, mods, *suite, n))?),
        _ => call("NoiseParams::from_str", || name.parse::<snow::params::NoiseParams>())?,
    };
    let Ok(params) = parsed else {
        return Ok(st);
    };
    st.parsed = true;
    let dh = match params.dh {
        snow::params::DHChoice::Curve25519 => Some(DhKind::X25519),
        snow::params::DHChoice::P256 => Some(DhKind::P256),
        _ => None,
    };
    let mut sides: Vec<Side> = Vec::new();
    for (i, s) in script.setup.sides.iter().enumerate() {
        st.calls += 1;
        let hs = build_side(params.clone(), dh, s, i, script.setup.seed, &mut st)?;
        st.built[i] = hs.is_some();
        sides.push(Side {
            ep: hs.map_or(Ep::Gone, |h| Ep::Hs(Box::new(h))),
            last_out: None,
            delivered: true,
            ok_writes: 0,
            ok_reads: 0,
        });
    }
    let seed = script.setup.seed;
    let mut expanded: Vec<Op> = Vec::new();
    for op in &script.ops {
        if let Op::Step { plen } = op {
            expanded.push(Op::Write { w: Who::Auto, plen: *plen, buf: 66000, nonce: NonceSel::Ctr });
            expanded.push(Op::ReadPeer { w: Who::Auto, buf: 66000, edit: Edit::None, nonce: NonceSel::Ctr });
        } else {
            expanded.push(op.clone());
        }
    }
    for (k, op) in expanded.iter().enumerate() {
        st.calls += 1;
        let resolve = |w: Who, sides: &Vec<Side>, writing: bool| -> usize {
            match w {
                Who::A => 0,
                Who::B => 1,
                Who::Auto => {
                    if writing {
                        for (i, s) in sides.iter().enumerate() {
                            if let Ep::Hs(h) = &s.ep {
                                if h.is_my_turn() && !h.is_handshake_finished() {
                                    return i;
                                }
                            }
                        }
                        k % 2
                    } else {
                        for i in 0..2 {
                            if sides[1 - i].last_out.is_some() && !sides[1 - i].delivered {
                                return i;
                            }
                        }
                        k % 2
                    }
                },
            }
        };
        match op {
            Op::Write { w, plen, buf, nonce } => {
                let i = resolve(*w, &sides, true);
                let payload = expand(seed, 1000 + k as u64, (*plen).min(70000) as usize);
                let mut out = vec![0u8; (*buf).min(70000) as usize];
                let ctr = sides[i].ok_writes;
                let r = match &mut sides[i].ep {
                    Ep::Gone => continue,
                    Ep::Hs(h) => call("HandshakeState::write_message", || h.write_message(&payload, &mut out))?,
                    Ep::T(t) => call("TransportState::write_message", || t.write_message(&payload, &mut out))?,
                    Ep::Sl(t) => {
                        let n = match nonce {
                            NonceSel::Ctr => ctr,
                            NonceSel::Val(v) => *v,
                        };
                        call("StatelessTransportState::write_message", || t.write_message(n, &payload, &mut out))?
                    },
                };
                match r {
                    Ok(n) => {
                        if n > out.len() {
                            return Err(Fail::new(format!("write returned {n} > buffer {}", out.len())));
                        }
                        out.truncate(n);
                        match sides[i].ep {
                            Ep::Hs(_) => st.hs_ok_writes += 1,
                            _ => st.t_ok_writes += 1,
                        }
                        sides[i].last_out = Some(out);
                        sides[i].delivered = false;
                        sides[i].ok_writes += 1;
                    },
                    Err(_) => st.errs += 1,
                }
            },
            Op::ReadPeer { .. } | Op::ReadRaw { .. } => {
                let (i, msg, buf, nonce, genuine) = match op {
                    Op::ReadPeer { w, buf, edit, nonce } => {
                        let i = resolve(*w, &sides, false);
                        let Some(m) = sides[1 - i].last_out.clone() else { continue };
                        (i, edit_msg(&m, *edit), *buf, *nonce, *edit == Edit::None)
                    },
                    Op::ReadRaw { w, len, fill, buf, nonce } => {
                        let i = resolve(*w, &sides, false);
                        let mut m = expand(seed, 2000 + k as u64, (*len).min(70000) as usize);
                        if *fill != 0 {
                            for b in m.iter_mut() {
                                *b = *fill;
                            }
                        }
                        (i, m, *buf, *nonce, false)
                    },
                    _ => unreachable!(),
                };
                let mut out = vec![0u8; buf.min(70000) as usize];
                let ctr = sides[i].ok_reads;
                let r = match &mut sides[i].ep {
                    Ep::Gone => continue,
                    Ep::Hs(h) => call("HandshakeState::read_message", || h.read_message(&msg, &mut out))?,
                    Ep::T(t) => call("TransportState::read_message", || t.read_message(&msg, &mut out))?,
                    Ep::Sl(t) => {
                        let n = match nonce {
                            NonceSel::Ctr => ctr,
                            NonceSel::Val(v) => v,
                        };
                        call("StatelessTransportState::read_message", || t.read_message(n, &msg, &mut out))?
                    },
                };
                match r {
                    Ok(n) => {
                        if n > out.len() {
                            return Err(Fail::new(format!("read returned {n} > buffer {}", out.len())));
                        }
                        match sides[i].ep {
                            Ep::Hs(_) => st.hs_ok_reads += 1,
                            _ => st.t_ok_reads += 1,
                        }
                        sides[i].ok_reads += 1;
                        if genuine {
                            sides[1 - i].delivered = true;
                        }
                    },
                    Err(_) => st.errs += 1,
                }
            },
            Op::SetPsk { w, loc, len } => {
                let i = resolve(*w, &sides, true);
                let key = expand(seed, 100 + *loc as u64, *len as usize);
                if let Ep::Hs(h) = &mut sides[i].ep {
                    if call("HandshakeState::set_psk", || h.set_psk(psk_location(*loc), &key))?.is_err() {
                        st.errs += 1;
                    }
                }
            },
            Op::Query { w } => {
                let i = resolve(*w, &sides, true);
                match &sides[i].ep {
                    Ep::Hs(h) => {
                        call("HandshakeState getters", || {
                            let _ = h.is_my_turn();
                            let _ = h.is_handshake_finished();
                            let _ = h.is_initiator();
                            let _ = h.get_handshake_hash().len();
                            let _ = h.get_remote_static().map(|x| x.len());
                            let _ = h.was_write_payload_encrypted();
                            let _ = format!("{h:?}");
                        })?;
                    },
                    Ep::T(t) => {
                        call("TransportState getters", || {
                            let _ = t.is_initiator();
                            let _ = t.receiving_nonce();
                            let _ = t.sending_nonce();
                            let _ = t.get_remote_static().map(|x| x.len());
                            let _ = format!("{t:?}");
                        })?;
                    },
                    Ep::Sl(t) => {
                        call("StatelessTransportState getters", || {
                            let _ = t.is_initiator();
                            let _ = t.get_remote_static().map(|x| x.len());
                            let _ = format!("{t:?}");
                        })?;
                    },
                    Ep::Gone => {},
                }
            },
            Op::Convert { w, stateless } => {
                let i = resolve(*w, &sides, true);
                let ep = std::mem::replace(&mut sides[i].ep, Ep::Gone);
                sides[i].ep = match ep {
                    Ep::Hs(h) => {
                        if *stateless {
                            match call("into_stateless_transport_mode", || h.into_stateless_transport_mode())? {
                                Ok(t) => {
                                    st.converted += 1;
                                    sides[i].ok_writes = 0;
                                    sides[i].ok_reads = 0;
                                    Ep::Sl(Box::new(t))
                                },
                                Err(_) => {
                                    st.errs += 1;
                                    Ep::Gone
                                },
                            }
                        } else {
                            match call("into_transport_mode", || h.into_transport_mode())? {
                                Ok(t) => {
                                    st.converted += 1;
                                    sides[i].ok_writes = 0;
                                    sides[i].ok_reads = 0;
                                    Ep::T(Box::new(t))
                                },
                                Err(_) => {
                                    st.errs += 1;
                                    Ep::Gone
                                },
                            }
                        }
                    },
                    other => other,
                };
            },
            Op::Rekey { w, kind, key } => {
                let i = resolve(*w, &sides, true);
                let k1 = crate::engine::expand32(seed, 300 + *key as u64);
                let k2 = crate::engine::expand32(seed, 301 + *key as u64);
                match &mut sides[i].ep {
                    Ep::T(t) => call("TransportState rekey", || match kind % 6 {
                        0 => t.rekey_outgoing(),
                        1 => t.rekey_incoming(),
                        2 => t.rekey_manually(Some(&k1), None),
                        3 => t.rekey_manually(None, Some(&k2)),
                        4 => t.rekey_initiator_manually(&k1),
                        _ => t.rekey_responder_manually(&k2),
                    })?,
                    Ep::Sl(t) => call("StatelessTransportState rekey", || match kind % 6 {
                        0 => t.rekey_outgoing(),
                        1 => t.rekey_incoming(),
                        2 => t.rekey_manually(Some(&k1), Some(&k2)),
                        3 => t.rekey_manually(None, None),
                        4 => t.rekey_initiator_manually(&k1),
                        _ => t.rekey_responder_manually(&k2),
                    })?,
                    _ => {},
                }
            },
            Op::SetRecvNonce { w, nonce } => {
                let i = resolve(*w, &sides, false);
                if let Ep::T(t) = &mut sides[i].ep {
                    call("set_receiving_nonce", || t.set_receiving_nonce(*nonce))?;
                }
            },
            Op::SetSendNonce { w, nonce } => {
                let i = resolve(*w, &sides, true);
                if let Ep::T(t) = &mut sides[i].ep {
                    call("verif_set_sending_nonce", || t.verif_set_sending_nonce(*nonce))?;
                }
            },
            Op::Step { .. } => unreachable!(),
        }
        // passive observations after every operation, in whatever state the objects are:
        // Debug formatting (logging a session must never panic), the raw Split() query
        for side in sides.iter_mut() {
            match &mut side.ep {
                Ep::Hs(h) => {
                    let _ = call("HandshakeState as Debug", || format!("{:?}", h).len())?;
                    if k % 3 == 0 {
                        let _ = call("HandshakeState::dangerously_get_raw_split", || h.dangerously_get_raw_split())?;
                    }
                },
                Ep::T(t) => {
                    let _ = call("TransportState as Debug", || format!("{:?}", t).len())?;
                },
                Ep::Sl(t) => {
                    let _ = call("StatelessTransportState as Debug", || format!("{:?}", t).len())?;
                },
                Ep::Gone => {},
            }
        }
    }
    Ok(st)
}

// ---------------------------------------------------------------------------------------------
// proptest strategies

pub const BUF_SIZES: &[u32] = &[
    0, 1, 15, 16, 17, 31, 32, 33, 47, 48, 49, 63, 64, 65, 66, 80, 81, 82, 96, 97, 98, 112, 113, 129, 130, 146, 162, 200, 240, 241, 256, 257, 272, 1000,
    1584, 1585, 1599, 1600, 1601, 1615, 1616, 4096, 8192, 8193, 65535, 65536, 65551, 66000,
];
pub const NONCES: &[u64] = &[0, 1, 2, 0xFFFF_FFFF, 0x1_0000_0000, 1 << 63, u64::MAX - 2, u64::MAX - 1, u64::MAX];

fn who() -> impl Strategy<Value = Who> {
    prop_oneof![6 => Just(Who::Auto), 1 => Just(Who::A), 1 => Just(Who::B)]
}
fn buf() -> impl Strategy<Value = u32> {
    prop_oneof![4 => Just(66000u32), 3 => (0usize..BUF_SIZES.len()).prop_map(|i| BUF_SIZES[i]), 1 => 0u32..400, 1 => 400u32..9000]
}
fn plen() -> impl Strategy<Value = u32> {
    prop_oneof![5 => 0u32..40, 2 => (0usize..BUF_SIZES.len()).prop_map(|i| BUF_SIZES[i]), 1 => 65000u32..66000, 2 => 40u32..9000]
}
fn nonce_sel() -> impl Strategy<Value = NonceSel> {
    prop_oneof![
        4 => Just(NonceSel::Ctr),
        2 => (0usize..NONCES.len()).prop_map(|i| NonceSel::Val(NONCES[i])),
        1 => any::<u64>().prop_map(NonceSel::Val)
    ]
}
fn edit() -> impl Strategy<Value = Edit> {
    prop_oneof![
        6 => Just(Edit::None),
        1 => (any::<u16>(), 0u8..8).prop_map(|(p, b)| Edit::Flip(p, b)),
        1 => any::<u16>().prop_map(Edit::Trunc),
        1 => (1u8..70).prop_map(Edit::Extend)
    ]
}
pub fn op_strategy() -> impl Strategy<Value = Op> {
    prop_oneof![
        10 => (0u32..40).prop_map(|plen| Op::Step { plen }),
        8 => (who(), plen(), buf(), nonce_sel()).prop_map(|(w, plen, buf, nonce)| Op::Write { w, plen, buf, nonce }),
        8 => (who(), buf(), edit(), nonce_sel()).prop_map(|(w, buf, edit, nonce)| Op::ReadPeer { w, buf, edit, nonce }),
        2 => (who(), plen(), any::<u8>(), buf(), nonce_sel()).prop_map(|(w, len, fill, buf, nonce)| Op::ReadRaw { w, len, fill, buf, nonce }),
        1 => (who(), any::<u8>(), prop_oneof![3 => Just(32u8), 1 => any::<u8>()]).prop_map(|(w, loc, len)| Op::SetPsk { w, loc: if loc % 3 == 0 { loc } else if loc % 7 == 1 { 250 + loc % 6 } else { loc % 12 }, len }),
        1 => who().prop_map(|w| Op::Query { w }),
        3 => (who(), any::<bool>()).prop_map(|(w, stateless)| Op::Convert { w, stateless }),
        1 => (who(), 0u8..6, 0u8..3).prop_map(|(w, kind, key)| Op::Rekey { w, kind, key }),
        1 => (who(), (0usize..NONCES.len()).prop_map(|i| NONCES[i])).prop_map(|(w, nonce)| Op::SetRecvNonce { w, nonce }),
        1 => (who(), (0usize..NONCES.len()).prop_map(|i| NONCES[i])).prop_map(|(w, nonce)| Op::SetSendNonce { w, nonce }),
    ]
}
fn key_sel() -> impl Strategy<Value = KeySel> {
    prop_oneof![12 => Just(KeySel::Valid), 2 => Just(KeySel::None), 2 => (0u8..=200).prop_map(KeySel::Len), 1 => prop_oneof![Just(31u8), Just(32), Just(33), Just(64), Just(65), Just(66)].prop_map(KeySel::Len)]
}
fn side(initiator: bool) -> impl Strategy<Value = SideSetup> {
    prop_oneof![
        3 => (prop_oneof![2 => Just(KeySel::None), 1 => Just(KeySel::Valid)], 0u32..40).prop_map(move |(fixed_e, prologue_len)| SideSetup {
            initiator,
            s: KeySel::Valid,
            rs: KeySel::Valid,
            fixed_e,
            prologue_len,
            psks: vec![],
            dup: 0,
            ring: prologue_len % 3 == 0,
        }),
        1 => wild_side(initiator),
    ]
}
fn wild_side(initiator: bool) -> impl Strategy<Value = SideSetup> {
    (
        prop_oneof![9 => Just(initiator), 1 => Just(!initiator)],
        key_sel(),
        key_sel(),
        prop_oneof![3 => Just(KeySel::None), 2 => Just(KeySel::Valid), 1 => (0u8..=200).prop_map(KeySel::Len)],
        prop_oneof![6 => 0u32..100, 1 => Just(65535u32), 1 => Just(66000u32)],
        prop_oneof![6 => Just(255u8), 1 => any::<u8>()],
        prop_oneof![9 => Just(0u8), 1 => 0u8..16],
    )
        .prop_map(|(initiator, s, rs, fixed_e, prologue_len, psk_extra, dup)| SideSetup {
            initiator,
            s,
            rs,
            fixed_e,
            prologue_len,
            psks: if psk_extra == 255 { vec![] } else { vec![psk_extra] },
            dup,
            ring: prologue_len % 2 == 1,
        })
}
fn name_sel() -> impl Strategy<Value = NameSel> {
    prop_oneof![
        12 => (any::<u16>(), 0u8..24).prop_map(|(h, s)| NameSel::Valid(h, s)),
        2 => (any::<u16>(), 0u8..24, any::<u16>(), 0u8..5, any::<u8>()).prop_map(|(h, s, p, k, c)| NameSel::Edited(h, s, p, k, c)),
        1 => "\\PC{0,40}".prop_map(NameSel::Raw),
        2 => (0u8..38, prop::collection::vec(prop_oneof![6 => 0u8..5, 1 => any::<u8>(), 1 => Just(255u8)], 1..4), prop::collection::vec(any::<u8>(), 0..24), 0u8..24, "[ -~]{0,70}").prop_map(|(p, palette, picks, s, n)| {
            // modifier lists drawn from a small palette, so that the same modifier repeats often
            let m: Vec<u8> = picks.iter().map(|k| palette[*k as usize % palette.len()]).collect();
            NameSel::Hand(p, m, s, n)
        }),
        1 => "Noise_[NXKI1]{1,4}(psk[0-9]{1,3}|fallback|hfs|\\+){0,3}_(25519|448|P256)_(ChaChaPoly|AESGCM|XChaChaPoly)_(SHA256|SHA512|BLAKE2s|BLAKE2b)".prop_map(NameSel::Raw),
    ]
}
pub fn script_strategy(max_ops: usize) -> impl Strategy<Value = Script> {
    (name_sel(), side(true), side(false), any::<u64>(), prop::collection::vec(op_strategy(), 0..max_ops)).prop_map(
        |(name, a, b, seed, ops)| {
            // psks the name asks for are supplied on both sides (plus the generated extras)
            let mut a = a;
            let mut b = b;
            if seed % 5 != 0 {
                // mostly agree on the prologue so that sessions get past the first AEAD
                b.prologue_len = a.prologue_len;
            }
            if let Some(pn) = rn::parse_name(&name_string(&name)) {
                for n in pn.psk_mods {
                    if !a.psks.contains(&n) {
                        a.psks.push(n);
                    }
                    if !b.psks.contains(&n) && seed % 7 != 0 {
                        b.psks.push(n);
                    }
                }
            }
            if let NameSel::Hand(_, mods, _, _) = &name {
                for n in mods.iter().filter(|m| **m < 10) {
                    if !a.psks.contains(n) {
                        a.psks.push(*n);
                    }
                    if !b.psks.contains(n) {
                        b.psks.push(*n);
                    }
                }
            }
            Script { setup: Setup { name, sides: [a, b], seed }, ops }
        },
    )
}

// ---------------------------------------------------------------------------------------------
// byte decoder for the libFuzzer target

pub struct Bytes<'a>(pub &'a [u8], pub usize);
impl Bytes<'_> {
    pub fn u8(&mut self) -> u8 {
        let v = self.0.get(self.1).copied().unwrap_or(0);
        self.1 += 1;
        v
    }
    pub fn u16(&mut self) -> u16 {
        u16::from(self.u8()) | (u16::from(self.u8()) << 8)
    }
    pub fn u64(&mut self) -> u64 {
        let mut v = 0u64;
        for i in 0..8 {
            v |= u64::from(self.u8()) << (8 * i);
        }
        v
    }
    pub fn done(&self) -> bool {
        self.1 >= self.0.len()
    }
}

fn dec_who(b: &mut Bytes) -> Who {
    match b.u8() % 8 {
        0 => Who::A,
        1 => Who::B,
        _ => Who::Auto,
    }
}
fn dec_buf(b: &mut Bytes) -> u32 {
    let x = b.u8();
    if x < 128 {
        66000
    } else if x < 200 {
        BUF_SIZES[x as usize % BUF_SIZES.len()]
    } else {
        u32::from(b.u16()) % 400
    }
}
fn dec_plen(b: &mut Bytes) -> u32 {
    let x = b.u8();
    if x < 160 {
        u32::from(x) % 40
    } else if x < 230 {
        BUF_SIZES[x as usize % BUF_SIZES.len()]
    } else {
        65000 + u32::from(b.u16()) % 1000
    }
}
fn dec_nonce(b: &mut Bytes) -> NonceSel {
    let x = b.u8();
    if x < 150 {
        NonceSel::Ctr
    } else if x < 230 {
        NonceSel::Val(NONCES[x as usize % NONCES.len()])
    } else {
        NonceSel::Val(b.u64())
    }
}
fn dec_key(b: &mut Bytes) -> KeySel {
    let x = b.u8();
    if x < 180 {
        KeySel::Valid
    } else if x < 210 {
        KeySel::None
    } else {
        KeySel::Len(b.u8() % 201)
    }
}
fn dec_side(b: &mut Bytes, initiator: bool) -> SideSetup {
    let flip = b.u8() > 240;
    let s = dec_key(b);
    let rs = dec_key(b);
    let fe = match b.u8() % 6 {
        0..=2 => KeySel::None,
        3 | 4 => KeySel::Valid,
        _ => KeySel::Len(b.u8() % 201),
    };
    let pl = match b.u8() {
        0..=200 => u32::from(b.u8()) % 100,
        201..=230 => 65535,
        _ => 66000,
    };
    let x = b.u8();
    let psks = if x < 220 { vec![] } else { vec![b.u8()] };
    let dup = if b.u8() < 230 { 0 } else { b.u8() % 16 };
    SideSetup { initiator: initiator != flip, s, rs, fixed_e: fe, prologue_len: pl, psks, dup, ring: pl % 3 == 0 }
}

/// Decode an arbitrary byte string into a script (total: every input decodes).
pub fn decode(data: &[u8]) -> Script {
    let mut b = Bytes(data, 0);
    let name = match b.u8() % 16 {
        0 => {
            let n = b.u8() as usize % 48;
            let raw: Vec<u8> = (0..n).map(|_| b.u8()).collect();
            NameSel::Raw(String::from_utf8_lossy(&raw).to_string())
        },
        1 | 2 => NameSel::Edited(b.u16(), b.u8() % 24, b.u16(), b.u8() % 5, b.u8()),
        3 => {
            let p = b.u8() % 38;
            let k = b.u8() as usize % 24;
            let pal: Vec<u8> = (0..1 + b.u8() % 3).map(|_| { let v = b.u8(); if v < 200 { v % 5 } else { v } }).collect();
            let mods: Vec<u8> = (0..k).map(|_| pal[b.u8() as usize % pal.len()]).collect();
            let suite = b.u8() % 24;
            let n = b.u8() as usize % 48;
            let raw: Vec<u8> = (0..n).map(|_| 0x20 + b.u8() % 0x5f).collect();
            NameSel::Hand(p, mods, suite, String::from_utf8_lossy(&raw).to_string())
        },
        _ => NameSel::Valid(b.u16(), b.u8() % 24),
    };
    let mut a = dec_side(&mut b, true);
    let mut bb = dec_side(&mut b, false);
    let seed = b.u64();
    if seed % 5 != 0 {
        bb.prologue_len = a.prologue_len;
    }
    if let Some(pn) = rn::parse_name(&name_string(&name)) {
        for n in pn.psk_mods {
            if !a.psks.contains(&n) {
                a.psks.push(n);
            }
            if !bb.psks.contains(&n) && seed % 7 != 0 {
                bb.psks.push(n);
            }
        }
    }
    let mut ops = Vec::new();
    while !b.done() && ops.len() < 64 {
        let op = match b.u8() % 34 {
            26..=33 => Op::Step { plen: u32::from(b.u8()) % 40 },
            0..=7 => Op::Write { w: dec_who(&mut b), plen: dec_plen(&mut b), buf: dec_buf(&mut b), nonce: dec_nonce(&mut b) },
            8..=15 => {
                let w = dec_who(&mut b);
                let buf = dec_buf(&mut b);
                let edit = match b.u8() % 9 {
                    0 => Edit::Flip(b.u16(), b.u8() % 8),
                    1 => Edit::Trunc(b.u16()),
                    2 => Edit::Extend(1 + b.u8() % 69),
                    _ => Edit::None,
                };
                Op::ReadPeer { w, buf, edit, nonce: dec_nonce(&mut b) }
            },
            16 | 17 => Op::ReadRaw { w: dec_who(&mut b), len: dec_plen(&mut b), fill: b.u8(), buf: dec_buf(&mut b), nonce: dec_nonce(&mut b) },
            18 => Op::SetPsk { w: dec_who(&mut b), loc: b.u8(), len: if b.u8() < 200 { 32 } else { b.u8() } },
            19 => Op::Query { w: dec_who(&mut b) },
            20..=22 => Op::Convert { w: dec_who(&mut b), stateless: b.u8() % 2 == 1 },
            23 => Op::Rekey { w: dec_who(&mut b), kind: b.u8() % 6, key: b.u8() % 3 },
            24 => Op::SetRecvNonce { w: dec_who(&mut b), nonce: NONCES[b.u8() as usize % NONCES.len()] },
            _ => Op::SetSendNonce { w: dec_who(&mut b), nonce: NONCES[b.u8() as usize % NONCES.len()] },
        };
        ops.push(op);
    }
    Script { setup: Setup { name, sides: [a, bb], seed }, ops }
}
