//! Engine: sharded deterministic runners (proptest + enumerators), evidence, replay files,
//! known findings, panic capture (DESIGN.md 1.2-1.5).

use proptest::strategy::{Strategy, ValueTree};
use proptest::test_runner::{Config, RngAlgorithm, RngSeed, TestCaseError, TestError, TestRng, TestRunner};
use serde::de::DeserializeOwned;
use serde::Serialize;
use std::cell::RefCell;
use std::collections::hash_map::DefaultHasher;
use std::collections::{BTreeMap, HashSet};
use std::hash::{Hash, Hasher};
use std::path::PathBuf;
use std::sync::atomic::{AtomicBool, Ordering};
use std::sync::Mutex;
use std::time::Instant;

pub const SHARDS: usize = 16;

#[derive(Clone, Copy, Debug, PartialEq, Eq)]
pub enum Tier {
    Quick,
    Thorough,
}

impl Tier {
    pub fn pick<T>(self, quick: T, thorough: T) -> T {
        match self {
            Tier::Quick => quick,
            Tier::Thorough => thorough,
        }
    }
}

/// A failed case. `sig` is a stable signature used to match entries of known_findings.json.
#[derive(Clone, Debug)]
pub struct Fail {
    pub msg: String,
    pub sig: Option<String>,
    /// the case could not be set up (a step that is not part of the property under test
    /// failed, e.g. the honest prefix of a session): reported as INCONCLUSIVE, never as a violation
    pub setup: bool,
}

impl Fail {
    pub fn new(msg: impl Into<String>) -> Fail {
        Fail { msg: msg.into(), sig: None, setup: false }
    }
    pub fn with_sig(msg: impl Into<String>, sig: impl Into<String>) -> Fail {
        Fail { msg: msg.into(), sig: Some(sig.into()), setup: false }
    }
    pub fn setup(msg: impl Into<String>) -> Fail {
        Fail { msg: msg.into(), sig: None, setup: true }
    }
}

impl From<String> for Fail {
    fn from(s: String) -> Fail {
        Fail::new(s)
    }
}
impl From<&str> for Fail {
    fn from(s: &str) -> Fail {
        Fail::new(s)
    }
}

pub type CaseResult = Result<(), Fail>;

#[macro_export]
macro_rules! ensure {
    ($cond:expr, $($arg:tt)*) => {
        if !($cond) {
            return Err($crate::engine::Fail::new(format!($($arg)*)));
        }
    };
}

#[macro_export]
macro_rules! fail {
    ($($arg:tt)*) => {
        return Err($crate::engine::Fail::new(format!($($arg)*)))
    };
}

/// Per-shard accumulator handed to every oracle invocation.
#[derive(Default)]
pub struct Acc {
    pub evals: u64,
    pub nontrivial: HashSet<u64>,
    pub labels: BTreeMap<String, u64>,
    pub samples: Vec<serde_json::Value>,
    pub known_hits: BTreeMap<String, u64>,
    pub skipped: BTreeMap<String, u64>,
    frozen: bool,
}

impl Acc {
    pub fn label(&mut self, l: impl AsRef<str>) {
        if !self.frozen {
            *self.labels.entry(l.as_ref().to_string()).or_insert(0) += 1;
        }
    }
    /// Mark the current case as non-trivial; `fp` identifies it for distinct counting.
    pub fn nontrivial<H: Hash>(&mut self, fp: &H) {
        if !self.frozen {
            let mut h = DefaultHasher::new();
            fp.hash(&mut h);
            self.nontrivial.insert(h.finish());
        }
    }
    /// Count something the generator produced but the oracle deliberately does not judge.
    pub fn skip(&mut self, why: impl AsRef<str>) {
        if !self.frozen {
            *self.skipped.entry(why.as_ref().to_string()).or_insert(0) += 1;
        }
    }
    pub fn sample<T: Serialize>(&mut self, v: &T) {
        if !self.frozen && self.samples.len() < 4 {
            if let Ok(j) = serde_json::to_value(v) {
                self.samples.push(j);
            }
        }
    }
    fn merge(&mut self, o: Acc) {
        self.evals += o.evals;
        self.nontrivial.extend(o.nontrivial);
        for (k, v) in o.labels {
            *self.labels.entry(k).or_insert(0) += v;
        }
        for (k, v) in o.known_hits {
            *self.known_hits.entry(k).or_insert(0) += v;
        }
        for (k, v) in o.skipped {
            *self.skipped.entry(k).or_insert(0) += v;
        }
        for s in o.samples {
            if self.samples.len() < 12 {
                self.samples.push(s);
            }
        }
    }
}

#[derive(Clone, Debug, serde::Deserialize)]
pub struct KnownEntry {
    pub property: String,
    pub signature: String,
    pub what: String,
}

#[derive(Clone, Debug, Default, serde::Deserialize)]
pub struct KnownFile {
    #[serde(default)]
    pub known: Vec<KnownEntry>,
    #[serde(default)]
    pub fixed: Vec<String>,
}

pub struct SubReport {
    pub name: String,
    pub evals: u64,
    pub exhaustive: bool,
    pub wall_s: f64,
}

pub struct Ctx {
    pub prop: &'static str,
    pub tier: Tier,
    pub seed: u64,
    pub verif_dir: PathBuf,
    pub start: Instant,
    pub known: Vec<KnownEntry>,
    /// policy: a panic raised while a case runs is a violation of this property
    pub panic_is_violation: bool,
    pub total: Mutex<Acc>,
    pub subs: Mutex<Vec<SubReport>>,
    pub violations: Mutex<Vec<(String, String)>>, // (replay path, message)
    pub inconclusive: Mutex<Vec<String>>,
    pub notes: Mutex<Vec<String>>,
    pub only_sub: Option<String>,
    pub setup_failures: Mutex<u64>,
}

pub fn splitmix(mut x: u64) -> u64 {
    x = x.wrapping_add(0x9E3779B97F4A7C15);
    let mut z = x;
    z = (z ^ (z >> 30)).wrapping_mul(0xBF58476D1CE4E5B9);
    z = (z ^ (z >> 27)).wrapping_mul(0x94D049BB133111EB);
    z ^ (z >> 31)
}

pub fn mix(a: u64, b: u64) -> u64 {
    splitmix(a ^ splitmix(b))
}

pub fn str_hash(s: &str) -> u64 {
    let mut h = DefaultHasher::new();
    s.hash(&mut h);
    h.finish()
}

/// Deterministic byte expansion of a content seed.
pub fn expand(seed: u64, label: u64, len: usize) -> Vec<u8> {
    let mut out = Vec::with_capacity(len + 8);
    let mut x = mix(seed, label);
    while out.len() < len {
        x = splitmix(x);
        out.extend_from_slice(&x.to_le_bytes());
    }
    out.truncate(len);
    out
}

pub fn expand32(seed: u64, label: u64) -> [u8; 32] {
    let v = expand(seed, label, 32);
    let mut a = [0u8; 32];
    a.copy_from_slice(&v);
    a
}

/// Monotone index mapping (shrinks towards 0).
pub fn pick(i: u16, len: usize) -> usize {
    if len == 0 {
        0
    } else {
        ((i as usize) * len) >> 16
    }
}

// ---------------------------------------------------------------------------------------------
// panic capture

#[derive(Clone, Debug)]
pub struct PanicInfo {
    pub msg: String,
    pub loc: String,
}

thread_local! {
    static LAST_PANIC: RefCell<Option<PanicInfo>> = const { RefCell::new(None) };
    static QUIET: RefCell<bool> = const { RefCell::new(false) };
}

pub fn install_panic_hook() {
    let default = std::panic::take_hook();
    std::panic::set_hook(Box::new(move |info| {
        let msg = if let Some(s) = info.payload().downcast_ref::<&str>() {
            s.to_string()
        } else if let Some(s) = info.payload().downcast_ref::<String>() {
            s.clone()
        } else {
            "<non-string panic>".to_string()
        };
        let loc = info.location().map(|l| format!("{}:{}", l.file(), l.line())).unwrap_or_default();
        LAST_PANIC.with(|p| *p.borrow_mut() = Some(PanicInfo { msg, loc }));
        let quiet = QUIET.with(|q| *q.borrow());
        if !quiet {
            default(info);
        }
    }));
}

/// Run `f`, converting an unwind into `Err(PanicInfo)`.
pub fn catch<T>(f: impl FnOnce() -> T) -> Result<T, PanicInfo> {
    let prev = QUIET.with(|q| q.replace(true));
    let r = std::panic::catch_unwind(std::panic::AssertUnwindSafe(f));
    QUIET.with(|q| *q.borrow_mut() = prev);
    match r {
        Ok(v) => Ok(v),
        Err(_) => Err(LAST_PANIC
            .with(|p| p.borrow_mut().take())
            .unwrap_or(PanicInfo { msg: "<unknown>".into(), loc: String::new() })),
    }
}

/// Normalised location class of a panic (crate-relative file, no line number) for signatures.
pub fn loc_class(loc: &str) -> String {
    let file = loc.rsplit_once(':').map(|x| x.0).unwrap_or(loc);
    if let Some(i) = file.find("/repo/src/") {
        return format!("snow/{}", &file[i + 10..]);
    }
    if file.starts_with("src/") {
        // either the harness itself or snow built by relative path
        return file.to_string();
    }
    if let Some(i) = file.find("/registry/src/") {
        let rest = &file[i + 14..];
        let rest = rest.split_once('/').map(|x| x.1).unwrap_or(rest);
        return format!("dep/{rest}");
    }
    file.to_string()
}

pub fn panic_in_harness(loc: &str) -> bool {
    // harness sources are compiled as "src/..." relative to /verif/harness; snow's as
    // "/repo/src/..." or "../../repo/src/..." (path dependency)
    let file = loc.rsplit_once(':').map(|x| x.0).unwrap_or(loc);
    file.starts_with("src/") && !file.contains("repo")
}

// ---------------------------------------------------------------------------------------------

impl Ctx {
    pub fn is_known(&self, sig: &str) -> Option<&KnownEntry> {
        self.known.iter().find(|k| k.property == self.prop && k.signature == sig)
    }

    pub fn note(&self, s: impl Into<String>) {
        self.notes.lock().unwrap().push(s.into());
    }

    pub fn inconclusive(&self, s: impl Into<String>) {
        let s = s.into();
        println!("INCONCLUSIVE property={} {}", self.prop, s);
        self.inconclusive.lock().unwrap().push(s);
    }

    pub fn sub_enabled(&self, sub: &str) -> bool {
        self.only_sub.as_deref().map_or(true, |s| s == sub)
    }

    fn write_replay<C: Serialize>(&self, sub: &str, case: &C, msg: &str) -> String {
        let dir = self.verif_dir.join("out").join("replays").join(self.prop);
        let _ = std::fs::create_dir_all(&dir);
        let body = serde_json::json!({
            "property": self.prop,
            "sub": sub,
            "seed": self.seed,
            "tier": format!("{:?}", self.tier),
            "message": msg,
            "case": case,
        });
        let txt = serde_json::to_string_pretty(&body).unwrap();
        let path = dir.join(format!("{}-{:016x}.json", sub, str_hash(&txt)));
        let _ = std::fs::write(&path, txt);
        path.to_string_lossy().to_string()
    }

    pub fn report_violation<C: Serialize>(&self, sub: &str, case: &C, msg: &str) {
        let path = self.write_replay(sub, case, msg);
        println!("VIOLATION property={} replay={}", self.prop, path);
        println!("  sub-check: {sub}");
        for l in msg.lines().take(12) {
            println!("  {l}");
        }
        self.violations.lock().unwrap().push((path, msg.to_string()));
    }

    /// Evaluate one case under the panic / known-finding policy.
    /// Ok(true) = held, Ok(false) = skipped (known finding or non-attributable panic)
    fn eval<C, F>(&self, oracle: &F, case: &C, acc: &mut Acc) -> Result<bool, Fail>
    where
        F: Fn(&C, &mut Acc) -> CaseResult,
    {
        let r = catch(|| oracle(case, acc));
        match r {
            Ok(Ok(())) => Ok(true),
            Ok(Err(f)) => {
                if f.setup {
                    // precondition of the case failed: not this property's verdict
                    let mut n = self.setup_failures.lock().unwrap();
                    *n += 1;
                    if *n <= 3 {
                        println!("INCONCLUSIVE property={} case set-up failed (not judged): {}", self.prop, f.msg.lines().next().unwrap_or(""));
                    }
                    acc.skip("case set-up failed (a step outside this property failed)");
                    return Ok(false);
                }
                if let Some(sig) = &f.sig {
                    if self.is_known(sig).is_some() {
                        if !acc.frozen {
                            *acc.known_hits.entry(sig.clone()).or_insert(0) += 1;
                        }
                        return Ok(false);
                    }
                }
                Err(f)
            },
            Err(p) => {
                if panic_in_harness(&p.loc) {
                    self.inconclusive(format!("harness panic at {}: {}", p.loc, p.msg));
                    return Ok(false);
                }
                let sig = format!("panic|{}", loc_class(&p.loc));
                if self.panic_is_violation {
                    if self.is_known(&sig).is_some() {
                        if !acc.frozen {
                            *acc.known_hits.entry(sig).or_insert(0) += 1;
                        }
                        return Ok(false);
                    }
                    Err(Fail::with_sig(format!("panic at {}: {}", p.loc, p.msg), sig))
                } else {
                    acc.skip(format!("case panicked outside this property's scope ({})", loc_class(&p.loc)));
                    Ok(false)
                }
            },
        }
    }

    fn finish_sub(&self, sub: &str, accs: Vec<Acc>, exhaustive: bool, t0: Instant) {
        let mut tot = self.total.lock().unwrap();
        let mut evals = 0;
        for a in accs {
            evals += a.evals;
            tot.merge(a);
        }
        self.subs.lock().unwrap().push(SubReport {
            name: sub.to_string(),
            evals,
            exhaustive,
            wall_s: t0.elapsed().as_secs_f64(),
        });
    }

    /// Enumerate `count` cases produced by `make(index)`; sharded by index; lowest failing
    /// index is reported. The enumeration is the whole (finite) space when `exhaustive`.
    pub fn run_indexed<C, M, F>(&self, sub: &str, count: usize, exhaustive: bool, make: M, oracle: F)
    where
        C: Serialize + Send,
        M: Fn(usize) -> C + Sync,
        F: Fn(&C, &mut Acc) -> CaseResult + Sync,
    {
        if !self.sub_enabled(sub) {
            return;
        }
        let t0 = Instant::now();
        let stop = AtomicBool::new(false);
        let results: Vec<(Acc, Option<(usize, C, Fail)>)> = std::thread::scope(|sc| {
            let hs: Vec<_> = (0..SHARDS)
                .map(|sh| {
                    let make = &make;
                    let oracle = &oracle;
                    let stop = &stop;
                    sc.spawn(move || {
                        let mut acc = Acc::default();
                        let mut i = sh;
                        let mut failure = None;
                        while i < count {
                            if stop.load(Ordering::Relaxed) {
                                break;
                            }
                            let case = make(i);
                            acc.evals += 1;
                            if acc.samples.len() < 2 {
                                acc.sample(&case);
                            }
                            match self.eval(oracle, &case, &mut acc) {
                                Ok(_) => {},
                                Err(f) => {
                                    failure = Some((i, case, f));
                                    stop.store(true, Ordering::Relaxed);
                                    break;
                                },
                            }
                            i += SHARDS;
                        }
                        (acc, failure)
                    })
                })
                .collect();
            hs.into_iter().map(|h| h.join().expect("shard thread")).collect()
        });
        let mut accs = Vec::new();
        let mut best: Option<(usize, C, Fail)> = None;
        for (a, f) in results {
            accs.push(a);
            if let Some(f) = f {
                if best.as_ref().map_or(true, |b| f.0 < b.0) {
                    best = Some(f);
                }
            }
        }
        let failed = best.is_some();
        if let Some((i, case, f)) = best {
            self.report_violation(sub, &case, &format!("[enumeration index {i}] {}", f.msg));
        }
        self.finish_sub(sub, accs, exhaustive && !failed, t0);
    }

    /// Convenience: enumerate a materialised list.
    pub fn run_list<C, F>(&self, sub: &str, cases: &[C], exhaustive: bool, oracle: F)
    where
        C: Serialize + Send + Sync + Clone,
        F: Fn(&C, &mut Acc) -> CaseResult + Sync,
    {
        self.run_indexed(sub, cases.len(), exhaustive, |i| cases[i].clone(), oracle);
    }

    /// Random search with shrinking (proptest as a library). `cases` is the total over all
    /// shards. Each shard has its own deterministic RNG derived from (seed, property, sub, shard).
    pub fn run_prop<C, S, MS, F>(&self, sub: &str, cases: u32, mk_strategy: MS, oracle: F)
    where
        C: Serialize + Send + Clone + std::fmt::Debug,
        S: Strategy<Value = C>,
        MS: Fn() -> S + Sync,
        F: Fn(&C, &mut Acc) -> CaseResult + Sync,
    {
        if !self.sub_enabled(sub) {
            return;
        }
        let t0 = Instant::now();
        let per = (cases as usize).div_ceil(SHARDS) as u32;
        let results: Vec<(Acc, Option<(C, String)>)> = std::thread::scope(|sc| {
            let hs: Vec<_> = (0..SHARDS)
                .map(|sh| {
                    let mk_strategy = &mk_strategy;
                    let oracle = &oracle;
                    sc.spawn(move || {
                        let seed = mix(mix(self.seed, str_hash(self.prop)), mix(str_hash(sub), sh as u64));
                        let mut seed_bytes = [0u8; 32];
                        for k in 0..4 {
                            seed_bytes[k * 8..k * 8 + 8].copy_from_slice(&splitmix(seed.wrapping_add(k as u64)).to_le_bytes());
                        }
                        let cfg = Config {
                            cases: per,
                            failure_persistence: None,
                            max_shrink_iters: 4000,
                            max_global_rejects: 100_000,
                            rng_algorithm: RngAlgorithm::ChaCha,
                            rng_seed: RngSeed::Fixed(seed),
                            ..Config::default()
                        };
                        let rng = TestRng::from_seed(RngAlgorithm::ChaCha, &seed_bytes);
                        let mut runner = TestRunner::new_with_rng(cfg, rng);
                        let acc = RefCell::new(Acc::default());
                        let strategy = mk_strategy();
                        let res = runner.run(&strategy, |case| {
                            let mut a = acc.borrow_mut();
                            if !a.frozen {
                                a.evals += 1;
                                if a.samples.len() < 2 {
                                    a.sample(&case);
                                }
                            }
                            match self.eval(oracle, &case, &mut a) {
                                Ok(_) => Ok(()),
                                Err(f) => {
                                    // from now on proptest is shrinking: stop counting
                                    a.frozen = true;
                                    Err(TestCaseError::fail(f.msg))
                                },
                            }
                        });
                        let mut acc = acc.into_inner();
                        acc.frozen = false;
                        let failure = match res {
                            Ok(()) => None,
                            Err(TestError::Fail(reason, case)) => Some((case, reason.message().to_string())),
                            Err(TestError::Abort(reason)) => {
                                self.inconclusive(format!("{sub}: generator aborted: {}", reason.message()));
                                None
                            },
                        };
                        (acc, failure)
                    })
                })
                .collect();
            hs.into_iter().map(|h| h.join().expect("shard thread")).collect()
        });
        let mut accs = Vec::new();
        let mut first: Option<(C, String)> = None;
        for (a, f) in results {
            accs.push(a);
            if first.is_none() {
                first = f;
            }
        }
        if let Some((case, msg)) = first {
            self.report_violation(sub, &case, &format!("[shrunk] {msg}"));
        }
        self.finish_sub(sub, accs, false, t0);
    }

    /// Replay one stored case through an oracle (bypasses proptest). Returns true if it held.
    pub fn replay_case<C, F>(&self, sub: &str, case: &serde_json::Value, oracle: F, origin: &str) -> bool
    where
        C: Serialize + DeserializeOwned,
        F: Fn(&C, &mut Acc) -> CaseResult,
    {
        let c: C = match serde_json::from_value(case.clone()) {
            Ok(c) => c,
            Err(e) => {
                self.inconclusive(format!("replay {origin}: cannot decode case for {sub}: {e}"));
                return true;
            },
        };
        let mut acc = Acc::default();
        acc.evals = 1;
        let r = self.eval(&oracle, &c, &mut acc);
        let ok = match r {
            Ok(_) => true,
            Err(f) => {
                self.report_violation(sub, &c, &format!("[replay of {origin}] {}", f.msg));
                false
            },
        };
        acc.label("replayed");
        self.total.lock().unwrap().merge(acc);
        ok
    }
}

/// Draw one value from a strategy with an explicit seed (used by fuzz-style sub-checks).
#[allow(dead_code)]
pub fn sample_strategy<S: Strategy>(s: &S, seed: u64) -> S::Value {
    let mut seed_bytes = [0u8; 32];
    for k in 0..4 {
        seed_bytes[k * 8..k * 8 + 8].copy_from_slice(&splitmix(seed.wrapping_add(k as u64)).to_le_bytes());
    }
    let rng = TestRng::from_seed(RngAlgorithm::ChaCha, &seed_bytes);
    let mut runner = TestRunner::new_with_rng(Config::default(), rng);
    s.new_tree(&mut runner).unwrap().current()
}
