//! Session descriptions, name enumerations, builders for snow endpoints and for the
//! reference model (DESIGN.md 2.4, 2.5).

use crate::engine::{expand, expand32, Fail};
use crate::instr::{Backend, Log, SharedRng, VResolver};
use crate::refcrypto::{self as rc, CipherKind, DhKind, HashKind, CIPHERS, DHS, HASHES};
use crate::refnoise::{self as rn, KeyPair, Pattern, RefHs, Suite};
use serde::{Deserialize, Serialize};
use snow::{Builder, HandshakeState};

/// The 38 pattern names in table order.
pub fn pattern_names() -> Vec<String> {
    rn::all_patterns().into_iter().map(|p| p.name).collect()
}

/// A handshake string: pattern + ascending psk modifier set.
#[derive(Clone, Debug, PartialEq, Eq, Hash, Serialize, Deserialize)]
pub struct HsName {
    pub pattern: String,
    pub psks: Vec<u8>,
}

impl HsName {
    pub fn string(&self) -> String {
        self.string_ordered(&self.psks)
    }
    pub fn string_ordered(&self, order: &[u8]) -> String {
        let mods: Vec<String> = order.iter().map(|n| format!("psk{n}")).collect();
        format!("{}{}", self.pattern, mods.join("+"))
    }
}

/// All 556 handshake strings: 38 patterns x every subset of psk indices 0..=#messages.
pub fn all_hs_names() -> Vec<HsName> {
    let mut out = Vec::new();
    for p in rn::all_patterns() {
        let n = p.msgs.len() + 1;
        for mask in 0u32..(1 << n) {
            let psks: Vec<u8> = (0..n as u8).filter(|i| mask & (1 << i) != 0).collect();
            out.push(HsName { pattern: p.name.clone(), psks });
        }
    }
    out
}

/// The 38 base patterns plus, per pattern, a few representative psk variants.
pub fn some_hs_names(per_pattern_psk_variants: usize) -> Vec<HsName> {
    let mut out = Vec::new();
    for p in rn::all_patterns() {
        out.push(HsName { pattern: p.name.clone(), psks: vec![] });
        let n = p.msgs.len() as u8;
        let mut variants: Vec<Vec<u8>> = vec![vec![0], vec![n], vec![1], vec![0, n], (0..=n).collect()];
        variants.dedup();
        let mut seen: Vec<Vec<u8>> = Vec::new();
        for v in variants {
            if seen.len() >= per_pattern_psk_variants {
                break;
            }
            if !seen.contains(&v) {
                seen.push(v.clone());
                out.push(HsName { pattern: p.name.clone(), psks: v });
            }
        }
    }
    out
}

pub fn all_suites() -> Vec<Suite> {
    let mut v = Vec::new();
    for dh in DHS {
        for cipher in CIPHERS {
            for hash in HASHES {
                v.push(Suite { dh, cipher, hash });
            }
        }
    }
    v
}

pub fn suite_string(s: Suite) -> String {
    format!("{}_{}_{}", s.dh.name(), s.cipher.name(), s.hash.name())
}

pub fn proto_name(hs: &str, s: Suite) -> String {
    format!("Noise_{}_{}", hs, suite_string(s))
}

/// Is the suite available from the ring backend (ciphers/hashes), so that backend choice matters?
pub fn ring_covers(s: Suite) -> bool {
    s.cipher != CipherKind::XChaChaPoly && matches!(s.hash, HashKind::Sha256 | HashKind::Sha512)
}

/// A private key for `dh` derived from a content seed (valid scalar for P-256 by construction).
pub fn priv_from_seed(dh: DhKind, seed: u64, label: u64) -> [u8; 32] {
    let mut k = expand32(seed, label);
    if dh == DhKind::P256 {
        k[0] &= 0x7f;
        k[31] |= 1;
    }
    k
}

/// Key seeds with seed % 32 == 5 use a pre-computed pair (golden/shaped_dh.json) whose DH output has
/// leading or trailing zero bytes (a 2^-8 .. 2^-16 event for random keys): the initiator's static
/// AND ephemeral key are `a`, the responder's are `b`, so every DH token of the session (ee, es,
/// se, ss) yields that shaped value.
pub fn golden_shaped(dh: DhKind, seed: u64, initiator: bool) -> Option<[u8; 32]> {
    use std::sync::OnceLock;
    if seed % 32 != 5 {
        return None;
    }
    static PAIRS: OnceLock<Vec<(String, [u8; 32], [u8; 32])>> = OnceLock::new();
    let pairs = PAIRS.get_or_init(|| {
        let dir = std::env::var("VERIF_DIR").unwrap_or_else(|_| "/verif".to_string());
        let txt = std::fs::read_to_string(std::path::Path::new(&dir).join("golden").join("shaped_dh.json")).unwrap_or_else(|_| "[]".into());
        let v: serde_json::Value = serde_json::from_str(&txt).unwrap_or(serde_json::json!([]));
        let mut out = Vec::new();
        for e in v.as_array().cloned().unwrap_or_default() {
            let (Some(d), Some(a), Some(b)) = (e["dh"].as_str(), e["a"].as_str(), e["b"].as_str()) else { continue };
            let (Ok(a), Ok(b)) = (hex::decode(a), hex::decode(b)) else { continue };
            if a.len() == 32 && b.len() == 32 {
                let mut ka = [0u8; 32];
                let mut kb = [0u8; 32];
                ka.copy_from_slice(&a);
                kb.copy_from_slice(&b);
                out.push((d.to_string(), ka, kb));
            }
        }
        out
    });
    let mine: Vec<&(String, [u8; 32], [u8; 32])> = pairs.iter().filter(|p| p.0 == dh.name()).collect();
    if mine.is_empty() {
        return None;
    }
    let p = mine[((seed / 32) % mine.len() as u64) as usize];
    Some(if initiator { p.1 } else { p.2 })
}

/// Like `priv_from_seed`, but a quarter of all key seeds ask for public keys of a rare shape:
/// seed % 8 == 7 -> the public key ENDS in a zero byte; seed % 8 == 6 -> the first coordinate
/// byte is zero (byte 0 for X25519, byte 1 for the SEC1 encoding of P-256). Keys that live in
/// fixed-size zero-padded buffers, or that are compared / trimmed / length-sniffed, behave
/// differently exactly for such values (about 1 in 128..256 random keys).
pub fn shaped_priv(dh: DhKind, seed: u64, label: u64) -> [u8; 32] {
    use std::collections::HashMap;
    use std::sync::{Mutex, OnceLock};
    let shape = seed % 8;
    if shape < 6 {
        return priv_from_seed(dh, seed, label);
    }
    static CACHE: OnceLock<Mutex<HashMap<(DhKind, u64, u64), [u8; 32]>>> = OnceLock::new();
    let cache = CACHE.get_or_init(|| Mutex::new(HashMap::new()));
    // the search is seeded by a small pool index, so that results are shared between cases
    let seed = (seed >> 3) % 32 * 8 + shape;
    if let Some(k) = cache.lock().unwrap().get(&(dh, seed, label)) {
        return *k;
    }
    let mut found = priv_from_seed(dh, seed, label);
    for t in 0..6000u64 {
        let k = priv_from_seed(dh, seed, label + 1000 * (t + 1));
        if let Some(p) = rc::dh_pub(dh, &k) {
            let hit = if shape == 7 {
                p[p.len() - 1] == 0
            } else {
                p[if dh == DhKind::P256 { 1 } else { 0 }] == 0
            };
            if hit {
                found = k;
                break;
            }
        }
    }
    let mut c = cache.lock().unwrap();
    if c.len() > 200_000 {
        c.clear();
    }
    c.insert((dh, seed, label), found);
    found
}

/// How ephemeral keys reach snow.
#[derive(Clone, Copy, Debug, PartialEq, Eq, Hash, Serialize, Deserialize)]
pub enum EphMode {
    /// `fixed_ephemeral_key_for_testing_only`
    Fixed,
    /// through the resolver's RNG (the real `generate` path); RNG scripted per message
    Rng,
}

/// Complete description of a two-party session. Everything is derived from small values.
#[derive(Clone, Debug, PartialEq, Eq, Hash, Serialize, Deserialize)]
pub struct SessionSpec {
    pub hs: HsName,
    /// order in which the psk modifiers are written in the name (permutation of hs.psks)
    pub mod_order: Vec<u8>,
    pub suite: Suite,
    /// None: the canonical name string. Some(n): a custom name of n bytes via NoiseParams::new
    pub custom_name_len: Option<usize>,
    pub key_seed: u64,
    pub prologue_len: usize,
    pub eph: EphMode,
    pub backend_i: Backend,
    pub backend_r: Backend,
    /// key pinning: each side is ALSO given the peer's true static key where the pattern
    /// transmits it anyway (an application that knows whom it expects)
    #[serde(default)]
    pub pin_rs: bool,
}

impl SessionSpec {
    pub fn simple(hs: HsName, suite: Suite, key_seed: u64) -> SessionSpec {
        let mod_order = hs.psks.clone();
        SessionSpec {
            hs,
            mod_order,
            suite,
            custom_name_len: None,
            key_seed,
            prologue_len: 0,
            eph: EphMode::Fixed,
            backend_i: Backend::Default,
            backend_r: Backend::Default,
            pin_rs: false,
        }
    }
    pub fn pattern(&self) -> Pattern {
        rn::pattern(&self.hs.pattern).expect("pattern")
    }
    pub fn canonical_name(&self) -> String {
        proto_name(&self.hs.string_ordered(&self.mod_order), self.suite)
    }
    /// The name string that is hashed (and given to snow).
    pub fn name_string(&self) -> String {
        match self.custom_name_len {
            None => self.canonical_name(),
            Some(n) => {
                let base = format!("Custom_{}_", self.canonical_name());
                let mut s = String::new();
                while s.len() < n {
                    s.push_str(&base);
                }
                s.truncate(n);
                s
            },
        }
    }
    pub fn s_priv(&self, initiator: bool) -> [u8; 32] {
        if let Some(k) = golden_shaped(self.suite.dh, self.key_seed, initiator) {
            return k;
        }
        shaped_priv(self.suite.dh, self.key_seed, if initiator { 1 } else { 2 })
    }
    pub fn e_priv(&self, initiator: bool) -> [u8; 32] {
        if let Some(k) = golden_shaped(self.suite.dh, self.key_seed, initiator) {
            return k;
        }
        shaped_priv(self.suite.dh, self.key_seed, if initiator { 3 } else { 4 })
    }
    pub fn s_pub(&self, initiator: bool) -> Vec<u8> {
        rc::dh_pub(self.suite.dh, &self.s_priv(initiator)).expect("valid private key by construction")
    }
    pub fn psk(&self, n: u8) -> [u8; 32] {
        // shaped values a caller may legitimately use: the first PSK of the name is all zero /
        // all ones in one session out of 16 each
        if self.hs.psks.iter().min() == Some(&n) {
            match self.key_seed % 16 {
                9 => return [0u8; 32],
                10 => return [0xffu8; 32],
                _ => {},
            }
        }
        expand32(self.key_seed, 100 + n as u64)
    }
    pub fn prologue(&self) -> Vec<u8> {
        expand(self.key_seed, 7, self.prologue_len)
    }
    pub fn payload(&self, idx: usize, len: usize) -> Vec<u8> {
        expand(self.key_seed, 1000 + idx as u64, len)
    }
    pub fn n_msgs(&self) -> usize {
        self.pattern().msgs.len()
    }
    pub fn layouts(&self) -> Vec<rn::MsgLayout> {
        let m = self.pattern().with_psks(&self.hs.psks).expect("valid psk set");
        rn::layouts(&m, self.suite.dh)
    }
}

/// What to supply to one endpoint; the default is "exactly what the pattern needs".
#[derive(Clone, Debug)]
pub struct EpOverrides {
    pub supply_s: Option<bool>,
    pub supply_rs: Option<bool>,
    /// psk indices NOT to supply at build time
    pub omit_psks: Vec<u8>,
    pub rs_value: Option<Vec<u8>>,
    pub s_value: Option<Vec<u8>>,
    pub prologue: Option<Vec<u8>>,
    pub psk_values: Vec<(u8, [u8; 32])>,
    pub name: Option<String>,
}

impl Default for EpOverrides {
    fn default() -> Self {
        EpOverrides {
            supply_s: None,
            supply_rs: None,
            omit_psks: vec![],
            rs_value: None,
            s_value: None,
            prologue: None,
            psk_values: vec![],
            name: None,
        }
    }
}

pub struct Instr {
    pub rng: Option<SharedRng>,
    pub log: Option<Log>,
}

impl Instr {
    pub fn none() -> Instr {
        Instr { rng: None, log: None }
    }
}

pub fn snow_dh(d: DhKind) -> snow::params::DHChoice {
    match d {
        DhKind::X25519 => snow::params::DHChoice::Curve25519,
        DhKind::P256 => snow::params::DHChoice::P256,
    }
}
pub fn snow_cipher(c: CipherKind) -> snow::params::CipherChoice {
    match c {
        CipherKind::ChaChaPoly => snow::params::CipherChoice::ChaChaPoly,
        CipherKind::AesGcm => snow::params::CipherChoice::AESGCM,
        CipherKind::XChaChaPoly => snow::params::CipherChoice::XChaChaPoly,
    }
}
pub fn snow_hash(h: HashKind) -> snow::params::HashChoice {
    match h {
        HashKind::Sha256 => snow::params::HashChoice::SHA256,
        HashKind::Sha512 => snow::params::HashChoice::SHA512,
        HashKind::Blake2s => snow::params::HashChoice::Blake2s,
        HashKind::Blake2b => snow::params::HashChoice::Blake2b,
    }
}

/// snow's NoiseParams for a spec (parsed from the canonical string, or constructed through
/// the public `NoiseParams::new` with a custom name).
pub fn snow_params(spec: &SessionSpec, name_override: Option<&str>) -> Result<snow::params::NoiseParams, snow::Error> {
    if let Some(n) = name_override {
        return n.parse();
    }
    match spec.custom_name_len {
        None => spec.canonical_name().parse(),
        Some(_) => {
            let p: snow::params::NoiseParams = spec.canonical_name().parse()?;
            #[cfg(not(feature = "hfs"))]
            let np = snow::params::NoiseParams::new(spec.name_string(), p.base, p.handshake, p.dh, p.cipher, p.hash);
            #[cfg(feature = "hfs")]
            let np =
                snow::params::NoiseParams::new(spec.name_string(), p.base, p.handshake, p.dh, p.kem, p.cipher, p.hash);
            Ok(np)
        },
    }
}

/// Build a snow endpoint for `spec`.
pub fn build_snow(
    spec: &SessionSpec,
    initiator: bool,
    ov: &EpOverrides,
    instr: &Instr,
) -> Result<HandshakeState, snow::Error> {
    let pat = spec.pattern();
    let params = snow_params(spec, ov.name.as_deref())?;
    let backend = if initiator { spec.backend_i } else { spec.backend_r };
    let resolver = VResolver::new(backend, instr.rng.clone(), instr.log.clone());
    let mut b = Builder::with_resolver(params, Box::new(resolver));
    let s_priv = ov.s_value.clone().unwrap_or_else(|| spec.s_priv(initiator).to_vec());
    let rs_pub = ov.rs_value.clone().unwrap_or_else(|| spec.s_pub(!initiator));
    let prologue = ov.prologue.clone().unwrap_or_else(|| spec.prologue());
    let e_priv = spec.e_priv(initiator);
    let mut psk_store: Vec<(u8, [u8; 32])> = Vec::new();
    for &n in &spec.hs.psks {
        if ov.omit_psks.contains(&n) {
            continue;
        }
        let v = ov.psk_values.iter().find(|(i, _)| *i == n).map(|x| x.1).unwrap_or_else(|| spec.psk(n));
        psk_store.push((n, v));
    }
    if ov.supply_s.unwrap_or_else(|| pat.role_uses_static(initiator)) {
        b = b.local_private_key(&s_priv)?;
    }
    if ov.supply_rs.unwrap_or_else(|| pat.role_needs_remote_static(initiator) || (spec.pin_rs && pat.role_uses_static(!initiator))) {
        b = b.remote_public_key(&rs_pub)?;
    }
    if !prologue.is_empty() || ov.prologue.is_some() {
        b = b.prologue(&prologue)?;
    }
    for (n, v) in &psk_store {
        b = b.psk(*n, v)?;
    }
    if spec.eph == EphMode::Fixed {
        b = b.fixed_ephemeral_key_for_testing_only(&e_priv);
    }
    if initiator {
        b.build_initiator()
    } else {
        b.build_responder()
    }
}

/// Build the reference-model endpoint for `spec` (same inputs, model's own parser/table).
pub fn build_ref(spec: &SessionSpec, initiator: bool, ov: &EpOverrides) -> Result<RefHs, rn::RefErr> {
    let pat = spec.pattern();
    let dh = spec.suite.dh;
    let name = ov.name.clone().unwrap_or_else(|| spec.name_string());
    let s = if ov.supply_s.unwrap_or_else(|| pat.role_uses_static(initiator)) {
        let mut k = [0u8; 32];
        let sv = ov.s_value.clone().unwrap_or_else(|| spec.s_priv(initiator).to_vec());
        k.copy_from_slice(&sv[..32]);
        Some(KeyPair::from_priv(dh, k).ok_or(rn::RefErr::Missing("invalid s"))?)
    } else {
        None
    };
    let rs = if ov.supply_rs.unwrap_or_else(|| pat.role_needs_remote_static(initiator) || (spec.pin_rs && pat.role_uses_static(!initiator))) {
        Some(ov.rs_value.clone().unwrap_or_else(|| spec.s_pub(!initiator)))
    } else {
        None
    };
    let mut psks = [None; 10];
    for &n in &spec.hs.psks {
        if ov.omit_psks.contains(&n) {
            continue;
        }
        let v = ov.psk_values.iter().find(|(i, _)| *i == n).map(|x| x.1).unwrap_or_else(|| spec.psk(n));
        psks[n as usize] = Some(v);
    }
    let prologue = ov.prologue.clone().unwrap_or_else(|| spec.prologue());
    // the model applies psk modifiers in the order they are written in the name
    RefHs::new(name.as_bytes(), &pat, &spec.mod_order, spec.suite, initiator, &prologue, s, rs, psks)
}

pub fn e(x: &snow::Error) -> String {
    format!("{x:?}")
}

/// Both snow endpoints of an honest session, RNG scripted (if eph == Rng) so that the
/// ephemeral of each message equals `spec.e_priv(role)`.
pub struct Pair {
    pub i: HandshakeState,
    pub r: HandshakeState,
    pub rng_i: SharedRng,
    pub rng_r: SharedRng,
}

pub fn build_pair(spec: &SessionSpec, log: Option<Log>) -> Result<Pair, Fail> {
    let rng_i = SharedRng::seeded(spec.key_seed ^ 0x11, spec.suite.dh == DhKind::P256);
    let rng_r = SharedRng::seeded(spec.key_seed ^ 0x22, spec.suite.dh == DhKind::P256);
    rng_i.script(&spec.e_priv(true));
    rng_r.script(&spec.e_priv(false));
    let i = build_snow(spec, true, &EpOverrides::default(), &Instr { rng: Some(rng_i.clone()), log: log.clone() })
        .map_err(|x| Fail::setup(format!("build initiator {}: {}", spec.name_string(), e(&x))))?;
    let r = build_snow(spec, false, &EpOverrides::default(), &Instr { rng: Some(rng_r.clone()), log })
        .map_err(|x| Fail::setup(format!("build responder {}: {}", spec.name_string(), e(&x))))?;
    Ok(Pair { i, r, rng_i, rng_r })
}

/// Maximum payload length of message idx.
pub fn max_payload(spec: &SessionSpec, idx: usize) -> usize {
    65535 - spec.layouts()[idx].overhead
}

/// Payload / buffer length classes (DESIGN.md 2.5); `max` is the per-message maximum.
pub fn len_class(class: u8, max: usize, fill: u64) -> usize {
    let v = match class % 20 {
        0 => 0,
        1 => 1,
        2 => 15,
        3 => 16,
        4 => 17,
        5 => 31,
        6 => 32,
        7 => 33,
        8 => 63,
        9 => 64,
        10 => 65,
        11 => 127,
        12 => 128,
        13 => 129,
        14 => 1000,
        15 => max.saturating_sub(1),
        16 => max,
        17 => (fill as usize) % 300,
        18 => (fill as usize) % 5000,
        _ => (fill as usize) % (max + 1),
    };
    v.min(max)
}
