//! Independent primitive oracles (DESIGN.md 2.2).
//!
//! Nothing in here calls into snow. SHA-2, ChaCha20-Poly1305, AES-256-GCM, X25519 and
//! P-256 come from *ring* (BoringSSL-derived code, different from the RustCrypto crates
//! snow's default resolver wraps); BLAKE2, HMAC and the Noise HKDF are written out from
//! RFC 7693 / RFC 2104 / the Noise specification; XChaCha20-Poly1305 is HChaCha20 + ring's
//! ChaCha20-Poly1305 as in draft-irtf-cfrg-xchacha.

#![allow(deprecated)] // ring::test::rand is the only way to inject fixed private scalars into ring

use serde::{Deserialize, Serialize};

#[derive(Clone, Copy, Debug, PartialEq, Eq, Hash, Serialize, Deserialize, PartialOrd, Ord)]
pub enum HashKind {
    Sha256,
    Sha512,
    Blake2s,
    Blake2b,
}
pub const HASHES: [HashKind; 4] = [HashKind::Sha256, HashKind::Sha512, HashKind::Blake2s, HashKind::Blake2b];

#[derive(Clone, Copy, Debug, PartialEq, Eq, Hash, Serialize, Deserialize, PartialOrd, Ord)]
pub enum CipherKind {
    ChaChaPoly,
    AesGcm,
    XChaChaPoly,
}
pub const CIPHERS: [CipherKind; 3] = [CipherKind::ChaChaPoly, CipherKind::AesGcm, CipherKind::XChaChaPoly];

#[derive(Clone, Copy, Debug, PartialEq, Eq, Hash, Serialize, Deserialize, PartialOrd, Ord)]
pub enum DhKind {
    X25519,
    P256,
}
pub const DHS: [DhKind; 2] = [DhKind::X25519, DhKind::P256];

impl HashKind {
    pub fn name(self) -> &'static str {
        match self {
            HashKind::Sha256 => "SHA256",
            HashKind::Sha512 => "SHA512",
            HashKind::Blake2s => "BLAKE2s",
            HashKind::Blake2b => "BLAKE2b",
        }
    }
    pub fn hash_len(self) -> usize {
        match self {
            HashKind::Sha256 | HashKind::Blake2s => 32,
            _ => 64,
        }
    }
    pub fn block_len(self) -> usize {
        match self {
            HashKind::Sha256 | HashKind::Blake2s => 64,
            _ => 128,
        }
    }
    /// Hash of the concatenation of `parts`.
    pub fn hash(self, parts: &[&[u8]]) -> Vec<u8> {
        match self {
            HashKind::Sha256 | HashKind::Sha512 => {
                let alg = if self == HashKind::Sha256 { &ring::digest::SHA256 } else { &ring::digest::SHA512 };
                let mut c = ring::digest::Context::new(alg);
                for p in parts {
                    c.update(p);
                }
                c.finish().as_ref().to_vec()
            },
            HashKind::Blake2s => {
                let mut all = Vec::new();
                for p in parts {
                    all.extend_from_slice(p);
                }
                blake2s(&all).to_vec()
            },
            HashKind::Blake2b => {
                let mut all = Vec::new();
                for p in parts {
                    all.extend_from_slice(p);
                }
                blake2b(&all).to_vec()
            },
        }
    }
}

impl CipherKind {
    pub fn name(self) -> &'static str {
        match self {
            CipherKind::ChaChaPoly => "ChaChaPoly",
            CipherKind::AesGcm => "AESGCM",
            CipherKind::XChaChaPoly => "XChaChaPoly",
        }
    }
}

impl DhKind {
    pub fn name(self) -> &'static str {
        match self {
            DhKind::X25519 => "25519",
            DhKind::P256 => "P256",
        }
    }
    pub fn pub_len(self) -> usize {
        match self {
            DhKind::X25519 => 32,
            DhKind::P256 => 65,
        }
    }
}

// ---------------------------------------------------------------------------------------------
// BLAKE2 (RFC 7693), unkeyed, full-length digests. Straight transcription of the RFC text.

const SIGMA: [[usize; 16]; 12] = [
    [0, 1, 2, 3, 4, 5, 6, 7, 8, 9, 10, 11, 12, 13, 14, 15],
    [14, 10, 4, 8, 9, 15, 13, 6, 1, 12, 0, 2, 11, 7, 5, 3],
    [11, 8, 12, 0, 5, 2, 15, 13, 10, 14, 3, 6, 7, 1, 9, 4],
    [7, 9, 3, 1, 13, 12, 11, 14, 2, 6, 5, 10, 4, 0, 15, 8],
    [9, 0, 5, 7, 2, 4, 10, 15, 14, 1, 11, 12, 6, 8, 3, 13],
    [2, 12, 6, 10, 0, 11, 8, 3, 4, 13, 7, 5, 15, 14, 1, 9],
    [12, 5, 1, 15, 14, 13, 4, 10, 0, 7, 6, 3, 9, 2, 8, 11],
    [13, 11, 7, 14, 12, 1, 3, 9, 5, 0, 15, 4, 8, 6, 2, 10],
    [6, 15, 14, 9, 11, 3, 0, 8, 12, 2, 13, 7, 1, 4, 10, 5],
    [10, 2, 8, 4, 7, 6, 1, 5, 15, 11, 9, 14, 3, 12, 13, 0],
    [0, 1, 2, 3, 4, 5, 6, 7, 8, 9, 10, 11, 12, 13, 14, 15],
    [14, 10, 4, 8, 9, 15, 13, 6, 1, 12, 0, 2, 11, 7, 5, 3],
];

const IV_B: [u64; 8] = [
    0x6a09e667f3bcc908,
    0xbb67ae8584caa73b,
    0x3c6ef372fe94f82b,
    0xa54ff53a5f1d36f1,
    0x510e527fade682d1,
    0x9b05688c2b3e6c1f,
    0x1f83d9abfb41bd6b,
    0x5be0cd19137e2179,
];
const IV_S: [u32; 8] =
    [0x6A09E667, 0xBB67AE85, 0x3C6EF372, 0xA54FF53A, 0x510E527F, 0x9B05688C, 0x1F83D9AB, 0x5BE0CD19];

fn compress_b(h: &mut [u64; 8], block: &[u8; 128], t: u128, last: bool) {
    let mut m = [0u64; 16];
    for i in 0..16 {
        m[i] = u64::from_le_bytes(block[i * 8..i * 8 + 8].try_into().unwrap());
    }
    let mut v = [0u64; 16];
    v[..8].copy_from_slice(h);
    v[8..].copy_from_slice(&IV_B);
    v[12] ^= t as u64;
    v[13] ^= (t >> 64) as u64;
    if last {
        v[14] = !v[14];
    }
    fn g(v: &mut [u64; 16], a: usize, b: usize, c: usize, d: usize, x: u64, y: u64) {
        v[a] = v[a].wrapping_add(v[b]).wrapping_add(x);
        v[d] = (v[d] ^ v[a]).rotate_right(32);
        v[c] = v[c].wrapping_add(v[d]);
        v[b] = (v[b] ^ v[c]).rotate_right(24);
        v[a] = v[a].wrapping_add(v[b]).wrapping_add(y);
        v[d] = (v[d] ^ v[a]).rotate_right(16);
        v[c] = v[c].wrapping_add(v[d]);
        v[b] = (v[b] ^ v[c]).rotate_right(63);
    }
    for r in 0..12 {
        let s = &SIGMA[r];
        g(&mut v, 0, 4, 8, 12, m[s[0]], m[s[1]]);
        g(&mut v, 1, 5, 9, 13, m[s[2]], m[s[3]]);
        g(&mut v, 2, 6, 10, 14, m[s[4]], m[s[5]]);
        g(&mut v, 3, 7, 11, 15, m[s[6]], m[s[7]]);
        g(&mut v, 0, 5, 10, 15, m[s[8]], m[s[9]]);
        g(&mut v, 1, 6, 11, 12, m[s[10]], m[s[11]]);
        g(&mut v, 2, 7, 8, 13, m[s[12]], m[s[13]]);
        g(&mut v, 3, 4, 9, 14, m[s[14]], m[s[15]]);
    }
    for i in 0..8 {
        h[i] ^= v[i] ^ v[i + 8];
    }
}

pub fn blake2b(data: &[u8]) -> [u8; 64] {
    let mut h = IV_B;
    h[0] ^= 0x0101_0000 ^ 64;
    let mut t: u128 = 0;
    let mut rest = data;
    while rest.len() > 128 {
        t += 128;
        compress_b(&mut h, rest[..128].try_into().unwrap(), t, false);
        rest = &rest[128..];
    }
    let mut block = [0u8; 128];
    block[..rest.len()].copy_from_slice(rest);
    t += rest.len() as u128;
    compress_b(&mut h, &block, t, true);
    let mut out = [0u8; 64];
    for i in 0..8 {
        out[i * 8..i * 8 + 8].copy_from_slice(&h[i].to_le_bytes());
    }
    out
}

fn compress_s(h: &mut [u32; 8], block: &[u8; 64], t: u64, last: bool) {
    let mut m = [0u32; 16];
    for i in 0..16 {
        m[i] = u32::from_le_bytes(block[i * 4..i * 4 + 4].try_into().unwrap());
    }
    let mut v = [0u32; 16];
    v[..8].copy_from_slice(h);
    v[8..].copy_from_slice(&IV_S);
    v[12] ^= t as u32;
    v[13] ^= (t >> 32) as u32;
    if last {
        v[14] = !v[14];
    }
    fn g(v: &mut [u32; 16], a: usize, b: usize, c: usize, d: usize, x: u32, y: u32) {
        v[a] = v[a].wrapping_add(v[b]).wrapping_add(x);
        v[d] = (v[d] ^ v[a]).rotate_right(16);
        v[c] = v[c].wrapping_add(v[d]);
        v[b] = (v[b] ^ v[c]).rotate_right(12);
        v[a] = v[a].wrapping_add(v[b]).wrapping_add(y);
        v[d] = (v[d] ^ v[a]).rotate_right(8);
        v[c] = v[c].wrapping_add(v[d]);
        v[b] = (v[b] ^ v[c]).rotate_right(7);
    }
    for r in 0..10 {
        let s = &SIGMA[r];
        g(&mut v, 0, 4, 8, 12, m[s[0]], m[s[1]]);
        g(&mut v, 1, 5, 9, 13, m[s[2]], m[s[3]]);
        g(&mut v, 2, 6, 10, 14, m[s[4]], m[s[5]]);
        g(&mut v, 3, 7, 11, 15, m[s[6]], m[s[7]]);
        g(&mut v, 0, 5, 10, 15, m[s[8]], m[s[9]]);
        g(&mut v, 1, 6, 11, 12, m[s[10]], m[s[11]]);
        g(&mut v, 2, 7, 8, 13, m[s[12]], m[s[13]]);
        g(&mut v, 3, 4, 9, 14, m[s[14]], m[s[15]]);
    }
    for i in 0..8 {
        h[i] ^= v[i] ^ v[i + 8];
    }
}

pub fn blake2s(data: &[u8]) -> [u8; 32] {
    let mut h = IV_S;
    h[0] ^= 0x0101_0000 ^ 32;
    let mut t: u64 = 0;
    let mut rest = data;
    while rest.len() > 64 {
        t += 64;
        compress_s(&mut h, rest[..64].try_into().unwrap(), t, false);
        rest = &rest[64..];
    }
    let mut block = [0u8; 64];
    block[..rest.len()].copy_from_slice(rest);
    t += rest.len() as u64;
    compress_s(&mut h, &block, t, true);
    let mut out = [0u8; 32];
    for i in 0..8 {
        out[i * 4..i * 4 + 4].copy_from_slice(&h[i].to_le_bytes());
    }
    out
}

// ---------------------------------------------------------------------------------------------
// HMAC (RFC 2104) and the Noise HKDF (spec section 4.3)

pub fn hmac(kind: HashKind, key: &[u8], data: &[u8]) -> Vec<u8> {
    let bl = kind.block_len();
    let mut k = if key.len() > bl { kind.hash(&[key]) } else { key.to_vec() };
    k.resize(bl, 0);
    let ipad: Vec<u8> = k.iter().map(|b| b ^ 0x36).collect();
    let opad: Vec<u8> = k.iter().map(|b| b ^ 0x5c).collect();
    let inner = kind.hash(&[&ipad, data]);
    kind.hash(&[&opad, &inner])
}

/// HKDF(chaining_key, input_key_material, num_outputs) of the Noise specification.
pub fn hkdf(kind: HashKind, ck: &[u8], ikm: &[u8], n: usize) -> Vec<Vec<u8>> {
    let temp = hmac(kind, ck, ikm);
    let mut outs: Vec<Vec<u8>> = Vec::new();
    let o1 = hmac(kind, &temp, &[1u8]);
    outs.push(o1);
    for i in 2..=n {
        let mut inp = outs.last().unwrap().clone();
        inp.push(i as u8);
        outs.push(hmac(kind, &temp, &inp));
    }
    outs
}

// ---------------------------------------------------------------------------------------------
// AEAD with the Noise nonce encodings (spec section 12; XChaChaPoly as documented by snow:
// 24-byte nonce = 16 zero bytes || 64-bit little-endian n)

fn nonce12(kind: CipherKind, n: u64) -> [u8; 12] {
    let mut nb = [0u8; 12];
    match kind {
        CipherKind::AesGcm => nb[4..].copy_from_slice(&n.to_be_bytes()),
        _ => nb[4..].copy_from_slice(&n.to_le_bytes()),
    }
    nb
}

fn ring_key(kind: CipherKind, key: &[u8; 32], n: u64) -> (ring::aead::LessSafeKey, ring::aead::Nonce) {
    use ring::aead::{LessSafeKey, Nonce, UnboundKey, AES_256_GCM, CHACHA20_POLY1305};
    match kind {
        CipherKind::AesGcm => (
            LessSafeKey::new(UnboundKey::new(&AES_256_GCM, key).unwrap()),
            Nonce::assume_unique_for_key(nonce12(kind, n)),
        ),
        CipherKind::ChaChaPoly => (
            LessSafeKey::new(UnboundKey::new(&CHACHA20_POLY1305, key).unwrap()),
            Nonce::assume_unique_for_key(nonce12(kind, n)),
        ),
        CipherKind::XChaChaPoly => {
            // nonce24 = 0^16 || LE64(n): subkey = HChaCha20(key, nonce24[0..16]),
            // inner 96-bit nonce = 0^4 || nonce24[16..24]
            let input = [0u8; 16];
            let sub = chacha20::hchacha::<chacha20::cipher::consts::U10>(key.into(), (&input).into());
            let mut sk = [0u8; 32];
            sk.copy_from_slice(&sub);
            let mut nb = [0u8; 12];
            nb[4..].copy_from_slice(&n.to_le_bytes());
            (
                LessSafeKey::new(UnboundKey::new(&CHACHA20_POLY1305, &sk).unwrap()),
                Nonce::assume_unique_for_key(nb),
            )
        },
    }
}

pub fn aead_encrypt(kind: CipherKind, key: &[u8; 32], n: u64, ad: &[u8], pt: &[u8]) -> Vec<u8> {
    let (k, nonce) = ring_key(kind, key, n);
    let mut buf = pt.to_vec();
    let tag = k.seal_in_place_separate_tag(nonce, ring::aead::Aad::from(ad), &mut buf).unwrap();
    buf.extend_from_slice(tag.as_ref());
    buf
}

pub fn aead_decrypt(kind: CipherKind, key: &[u8; 32], n: u64, ad: &[u8], ct: &[u8]) -> Option<Vec<u8>> {
    if ct.len() < 16 {
        return None;
    }
    let (k, nonce) = ring_key(kind, key, n);
    let mut buf = ct.to_vec();
    let l = k.open_in_place(nonce, ring::aead::Aad::from(ad), &mut buf).ok()?.len();
    buf.truncate(l);
    Some(buf)
}

/// REKEY(k) of spec section 4.2.
pub fn rekey(kind: CipherKind, key: &[u8; 32]) -> [u8; 32] {
    let ct = aead_encrypt(kind, key, u64::MAX, &[], &[0u8; 32]);
    let mut k = [0u8; 32];
    k.copy_from_slice(&ct[..32]);
    k
}

// ---------------------------------------------------------------------------------------------
// DH

fn ring_priv(kind: DhKind, privkey: &[u8; 32]) -> Option<ring::agreement::EphemeralPrivateKey> {
    let rng = ring::test::rand::FixedSliceRandom { bytes: privkey };
    let alg = match kind {
        DhKind::X25519 => &ring::agreement::X25519,
        DhKind::P256 => &ring::agreement::ECDH_P256,
    };
    ring::agreement::EphemeralPrivateKey::generate(alg, &rng).ok()
}

/// Public key for a 32-byte private key (None: not a valid private key for this curve).
pub fn dh_pub(kind: DhKind, privkey: &[u8; 32]) -> Option<Vec<u8>> {
    if kind == DhKind::P256 && !p256_scalar_valid(privkey) {
        return None;
    }
    let sk = ring_priv(kind, privkey)?;
    Some(sk.compute_public_key().ok()?.as_ref().to_vec())
}

/// DH(private, public) -> 32 bytes. For X25519 an all-zero result (low-order input) is
/// returned as zeros (the specification leaves rejecting it optional; snow does not reject).
/// None: invalid private scalar or (P-256) invalid public point.
pub fn dh(kind: DhKind, privkey: &[u8; 32], pubkey: &[u8]) -> Option<Vec<u8>> {
    if kind == DhKind::P256 && !p256_scalar_valid(privkey) {
        return None;
    }
    let sk = ring_priv(kind, privkey)?;
    let alg = match kind {
        DhKind::X25519 => &ring::agreement::X25519,
        DhKind::P256 => &ring::agreement::ECDH_P256,
    };
    let peer = ring::agreement::UnparsedPublicKey::new(alg, pubkey);
    match ring::agreement::agree_ephemeral(sk, &peer, |km| km.to_vec()) {
        Ok(v) => Some(v),
        Err(_) => match kind {
            DhKind::X25519 if pubkey.len() == 32 => Some(vec![0u8; 32]),
            _ => None,
        },
    }
}

/// The P-256 group order n, big endian.
pub const P256_ORDER: [u8; 32] = [
    0xff, 0xff, 0xff, 0xff, 0x00, 0x00, 0x00, 0x00, 0xff, 0xff, 0xff, 0xff, 0xff, 0xff, 0xff, 0xff, 0xbc, 0xe6, 0xfa,
    0xad, 0xa7, 0x17, 0x9e, 0x84, 0xf3, 0xb9, 0xca, 0xc2, 0xfc, 0x63, 0x25, 0x51,
];

pub fn p256_scalar_valid(k: &[u8; 32]) -> bool {
    k.iter().any(|b| *b != 0) && k[..] < P256_ORDER[..]
}

// ---------------------------------------------------------------------------------------------
// Self-test against known answers that do not come from any Rust code.

pub fn self_test(golden_dir: &std::path::Path) -> Result<usize, String> {
    let mut n = 0;
    // RFC 7693 appendix "abc"
    if hex::encode(blake2b(b"abc"))
        != "ba80a53f981c4d0d6a2797b69f12f6e94c212f14685ac4b74b12bb6fdbffa2d17d87c5392aab792dc252d5de4533cc9518d38aa8dbf1925ab92386edd4009923"
    {
        return Err("blake2b abc".into());
    }
    if hex::encode(blake2s(b"abc")) != "508c5e8c327c14e2e1a72ba34eeb452f37458b209ed63a294d999b4c86675982" {
        return Err("blake2s abc".into());
    }
    n += 2;
    let txt = std::fs::read_to_string(golden_dir.join("hash_kat.json")).map_err(|e| format!("hash_kat.json: {e}"))?;
    let v: serde_json::Value = serde_json::from_str(&txt).map_err(|e| e.to_string())?;
    let data = |len: usize, salt: usize| -> Vec<u8> { (0..len).map(|i| ((i * 7 + salt * 13 + 3) & 0xff) as u8).collect() };
    for (name, kind) in [("blake2s", HashKind::Blake2s), ("blake2b", HashKind::Blake2b)] {
        for e in v[name].as_array().ok_or("kat format")? {
            let len = e[0].as_u64().unwrap() as usize;
            let salt = e[1].as_u64().unwrap() as usize;
            if hex::encode(kind.hash(&[&data(len, salt)])) != e[2].as_str().unwrap() {
                return Err(format!("{name} KAT len {len}"));
            }
            n += 1;
        }
    }
    for e in v["hmac"].as_array().ok_or("kat format")? {
        let kind = match e[0].as_str().unwrap() {
            "sha256" => HashKind::Sha256,
            "sha512" => HashKind::Sha512,
            "blake2s" => HashKind::Blake2s,
            _ => HashKind::Blake2b,
        };
        let klen = e[1].as_u64().unwrap() as usize;
        let dlen = e[2].as_u64().unwrap() as usize;
        if hex::encode(hmac(kind, &data(klen, klen + 1), &data(dlen, dlen + 2))) != e[3].as_str().unwrap() {
            return Err(format!("hmac KAT {kind:?} {klen} {dlen}"));
        }
        n += 1;
    }
    // RFC 7748 section 6.1
    let a: [u8; 32] =
        hex::decode("77076d0a7318a57d3c16c17251b26645df4c2f87ebc0992ab177fba51db92c2a").unwrap().try_into().unwrap();
    let b: [u8; 32] =
        hex::decode("5dab087e624a8a4b79e17f8b83800ee66f3bb1292618b6fd1c2f8b27ff88e0eb").unwrap().try_into().unwrap();
    let pa = dh_pub(DhKind::X25519, &a).ok_or("x25519 pub")?;
    let pb = dh_pub(DhKind::X25519, &b).ok_or("x25519 pub")?;
    if hex::encode(&pa) != "8520f0098930a754748b7ddcb43ef75a0dbf3a0d26381af4eba4a98eaa9b4e6a"
        || hex::encode(&pb) != "de9edb7d7b7dc1b4d35b61c2ece435373f8343c85b78674dadfc7e146f882b4f"
    {
        return Err("rfc7748 public keys".into());
    }
    let k1 = dh(DhKind::X25519, &a, &pb).ok_or("x25519 dh")?;
    let k2 = dh(DhKind::X25519, &b, &pa).ok_or("x25519 dh")?;
    if hex::encode(&k1) != "4a5d9d5ba4ce2de1728e3bf480350f25e07e21c947d19e3376f09b3c1e161742" || k1 != k2 {
        return Err("rfc7748 shared secret".into());
    }
    n += 3;
    // RFC 8439 section 2.8.2 AEAD vector cannot be expressed with a Noise nonce (its IV has a
    // non-zero 32-bit prefix); instead: ring vs RustCrypto on the three ciphers is done in C18.
    // RFC 5903 section 8.1 (P-256 ECDH)
    let i: [u8; 32] =
        hex::decode("C88F01F510D9AC3F70A292DAA2316DE544E9AAB8AFE84049C62A9C57862D1433").unwrap().try_into().unwrap();
    let r: [u8; 32] =
        hex::decode("C6EF9C5D78AE012A011164ACB397CE2088685D8F06BF9BE0B283AB46476BEE53").unwrap().try_into().unwrap();
    let pi = dh_pub(DhKind::P256, &i).ok_or("p256 pub")?;
    let pr = dh_pub(DhKind::P256, &r).ok_or("p256 pub")?;
    if hex::encode_upper(&pi)
        != "04DAD0B65394221CF9B051E1FECA5787D098DFE637FC90B9EF945D0C37725811805271A0461CDB8252D61F1C456FA3E59AB1F45B33ACCF5F58389E0577B8990BB3"
    {
        return Err("rfc5903 public key".into());
    }
    let z1 = dh(DhKind::P256, &i, &pr).ok_or("p256 dh")?;
    let z2 = dh(DhKind::P256, &r, &pi).ok_or("p256 dh")?;
    if hex::encode_upper(&z1) != "D6840F6B42F6EDAFD13116E0E12565202FEF8E9ECE7DCE03812464D04B9442DE" || z1 != z2 {
        return Err("rfc5903 shared secret".into());
    }
    n += 3;
    // RFC 4231 test case 2 (HMAC-SHA-256/512, key "Jefe")
    if hex::encode(hmac(HashKind::Sha256, b"Jefe", b"what do ya want for nothing?"))
        != "5bdcc146bf60754e6a042426089575c75a003f089d2739839dec58b964ec3843"
    {
        return Err("rfc4231 hmac-sha256".into());
    }
    n += 1;
    Ok(n)
}
